"""Shared plumbing for every check: builds, evidence, known findings, violation reporting.

Exit codes: 0 held on everything explored (KNOWN-FINDING lines allowed), 1 violation not listed in
known_findings.jsonl, 2 machinery failure (never a verdict)."""
import fcntl
import hashlib
import json
import os
import subprocess
import sys
import time

VERIF = os.path.dirname(os.path.dirname(os.path.abspath(__file__)))
REPO = os.environ.get("VERIF_REPO", "/repo")
TARGET = os.path.join(VERIF, "target")
MONORAIL = os.path.join(TARGET, "repo-hooks", "debug", "monorail")
VX = os.path.join(TARGET, "harness", "release", "vx")
VHELPER = os.path.join(TARGET, "harness", "release", "vhelper")
SLOW_RESOLVE_SO = os.path.join(TARGET, "shim", "libslowresolve.so")
SWAP_ON_OPEN_SO = os.path.join(TARGET, "shim", "libswaponopen.so")
CRASH_AT_CALL_SO = os.path.join(TARGET, "shim", "libcrashatcall.so")
RUSTFLAGS = "--cfg tokio_unstable --cfg pnordahl_monorail_verif"


class EngineError(Exception):
    """Machinery failure: build error, divergence, scratch failure."""


def log(*a):
    print(*a, file=sys.stderr, flush=True)


def build_env():
    env = dict(os.environ)
    env["CARGO_NET_OFFLINE"] = "true"
    env.pop("CARGO_TARGET_DIR", None)
    env.pop("CARGO_ENCODED_RUSTFLAGS", None)
    return env


def ensure_built(need_cli=True, need_harness=True):
    """Rebuild (incrementally) the hooks-on monorail binary and the harness from /repo's current
    working tree. Serialised by a file lock so concurrent checks share one build."""
    os.makedirs(TARGET, exist_ok=True)
    t0 = time.time()
    with open(os.path.join(TARGET, ".build.lock"), "w") as lk:
        fcntl.flock(lk, fcntl.LOCK_EX)
        procs = []
        if need_cli:
            env = build_env()
            env["RUSTFLAGS"] = RUSTFLAGS
            procs.append(("monorail (hooks on)", subprocess.Popen(
                ["cargo", "build", "--offline", "--bin", "monorail",
                 "--target-dir", os.path.join(TARGET, "repo-hooks")],
                cwd=REPO, env=env, stdout=subprocess.PIPE, stderr=subprocess.STDOUT)))
        if need_harness:
            env = build_env()
            env.pop("RUSTFLAGS", None)  # harness/.cargo/config.toml carries the flags
            procs.append(("harness", subprocess.Popen(
                ["cargo", "build", "--offline", "--release", "--target-dir", os.path.join(TARGET, "harness")],
                cwd=os.path.join(VERIF, "harness"), env=env,
                stdout=subprocess.PIPE, stderr=subprocess.STDOUT)))
        for name, p in procs:
            out = p.communicate()[0].decode(errors="replace")
            if p.returncode != 0:
                log(out[-6000:])
                raise EngineError("build of %s failed" % name)
        # the slow-resolver fault injector (LD_PRELOAD shim, plain C)
        for so, srcname in ((SLOW_RESOLVE_SO, "slow_resolve.c"), (SWAP_ON_OPEN_SO, "swap_on_open.c"), (CRASH_AT_CALL_SO, "crash_at_call.c")):
            shim_src = os.path.join(VERIF, "harness", "shim", srcname)
            if need_harness and (not os.path.exists(so) or os.path.getmtime(so) < os.path.getmtime(shim_src)):
                os.makedirs(os.path.dirname(so), exist_ok=True)
                r = subprocess.run(["cc", "-shared", "-fPIC", "-O1", "-w", "-o", so, shim_src, "-ldl"], capture_output=True, text=True)
                if r.returncode != 0:
                    log(r.stderr[-2000:])
                    raise EngineError("build of the %s shim failed" % srcname)
        for need, path in ((need_cli, MONORAIL), (need_harness, VX), (need_harness, VHELPER)):
            if need and not os.access(path, os.X_OK):
                raise EngineError("expected build product %s is missing" % path)
    return time.time() - t0


def load_known():
    path = os.path.join(VERIF, "known_findings.jsonl")
    out = []
    if os.path.exists(path):
        for line in open(path):
            line = line.strip()
            if line and not line.startswith("#"):
                out.append(json.loads(line))
    return out


def case_hash(obj):
    return hashlib.sha256(json.dumps(obj, sort_keys=True).encode()).hexdigest()[:16]


LEVELS = {
    "C01": "exploration", "C03": "exploration", "C09": "exploration", "C10": "exploration",
    "C11": "exploration", "C16": "exploration", "C17": "exploration", "C18": "exploration",
    "C13": "fault_enumeration", "C15": "fault_enumeration",
    "C02": "model_checking", "C04": "model_checking", "C05": "model_checking",
    "C06": "model_checking", "C07": "model_checking", "C08": "model_checking",
    "C12": "model_checking", "C14": "model_checking", "C19": "model_checking",
    "C20": "model_checking",
}


def finish(prop, tier, result, t0, assumptions=None):
    """result: dict with coverage keys + 'violations': [{'sig','case','detail'}] (already bounded)
    + optional 'violation_count'/'by_sig'. Writes evidence, prints VIOLATION / KNOWN-FINDING lines,
    returns the exit code."""
    known = [k for k in load_known() if k.get("property") == prop and k.get("status") == "open"]
    known_sigs = {k["signature"]: k for k in known}
    violations = result.get("violations", [])
    by_sig = result.get("by_sig") or {}
    if not by_sig:
        for v in violations:
            by_sig[v["sig"]] = by_sig.get(v["sig"], 0) + 1
    unlisted = []
    listed = {}
    for v in sorted(violations, key=lambda v: (v.get("rank", 0), json.dumps(v["case"], sort_keys=True))):
        if v["sig"] in known_sigs:
            listed.setdefault(v["sig"], v)
        else:
            unlisted.append(v)
    for sig, v in listed.items():
        print("KNOWN-FINDING: property=%s %s [%s] e.g. %s" % (
            prop, known_sigs[sig].get("what", ""), sig, json.dumps(v["case"], sort_keys=True)[:300]))
    code = 0
    rdir = os.path.join(VERIF, "replays", prop)
    shown = set()
    for v in unlisted:
        if v["sig"] in shown:
            continue  # one replay per signature is enough to act on; counts are in evidence
        shown.add(v["sig"])
        os.makedirs(rdir, exist_ok=True)
        body = {"property": prop, "sig": v["sig"], "detail": v["detail"], "case": v["case"]}
        path = os.path.join(rdir, case_hash(body["case"]) + ".json")
        with open(path, "w") as f:
            json.dump(body, f, indent=1, sort_keys=True)
        print("VIOLATION property=%s replay=%s" % (prop, path))
        log("  [%s] %s" % (v["sig"], v["detail"][:500]))
        code = 1
    level = LEVELS[prop]
    cov = {k: v for k, v in result.items() if k not in ("violations", "violation_count", "by_sig")}
    cov["violations_by_signature"] = by_sig
    if not cov.get("samples"):
        cov["samples"] = [{"note": "no sample recorded"}]
    ev = {
        "property_id": prop,
        "tier": tier,
        "seed": int(os.environ.get("VERIF_SEED", "0") or 0),
        "level": level,
        "coverage": cov,
        "assumptions": assumptions or [],
        "wall_s": round(time.time() - t0, 3),
        "violations": int(result.get("violation_count", len(violations))),
        "known_findings_matched": sorted(listed.keys()),
        "repo_head": git_head(),
    }
    os.makedirs(os.path.join(VERIF, "evidence"), exist_ok=True)
    tmp = os.path.join(VERIF, "evidence", prop + ".json.tmp")
    with open(tmp, "w") as f:
        json.dump(ev, f, indent=1, sort_keys=True)
    os.replace(tmp, os.path.join(VERIF, "evidence", prop + ".json"))
    return code


def git_head():
    try:
        h = subprocess.run(["git", "-C", REPO, "rev-parse", "--short", "HEAD"], capture_output=True,
                           text=True).stdout.strip()
        d = subprocess.run(["git", "-C", REPO, "status", "--porcelain", "--untracked-files=no"],
                           capture_output=True, text=True).stdout.strip()
        return h + ("+dirty" if d else "")
    except Exception:
        return "unknown"


def run_vx(name, tier, timeout=7200):
    """Runs an in-process explorer in a child process (so an abort is attributed) and parses the
    JSON object on its last stdout line."""
    env = dict(os.environ)
    env["VERIF_TIER"] = tier
    p = subprocess.run([VX, name, "--tier", tier], capture_output=True, text=True, env=env,
                       timeout=timeout)
    lines = [l for l in p.stdout.strip().splitlines() if l.strip()]
    if p.returncode != 0 or not lines:
        log(p.stderr[-4000:])
        raise EngineError("vx %s exited with %s" % (name, p.returncode))
    try:
        return json.loads(lines[-1])
    except Exception as e:
        raise EngineError("vx %s produced unparsable output: %s" % (name, e))


def replay_vx(name, path):
    p = subprocess.run([VX, name, "--replay", path], capture_output=True, text=True)
    lines = [l for l in p.stdout.strip().splitlines() if l.strip()]
    if p.returncode != 0 or not lines:
        log(p.stderr[-4000:])
        raise EngineError("vx %s --replay exited with %s" % (name, p.returncode))
    return json.loads(lines[-1])


def pmap(fn, items, workers=None, timeout=3600, chunksize=1):
    """Parallel map over forked worker processes. Unlike multiprocessing.Pool.map this notices a
    worker that died (BrokenProcessPool) or a run that exceeds `timeout` and turns it into an
    EngineError instead of hanging."""
    import concurrent.futures as cf
    import multiprocessing
    items = list(items)
    if not items:
        return []
    workers = workers or min(16, os.cpu_count() or 4)
    ctx = multiprocessing.get_context("fork")
    ex = cf.ProcessPoolExecutor(max_workers=min(workers, len(items)), mp_context=ctx)
    try:
        try:
            return list(ex.map(fn, items, timeout=timeout, chunksize=chunksize))
        except cf.process.BrokenProcessPool as e:
            raise EngineError("a worker process died: %s" % e)
        except cf.TimeoutError:
            raise EngineError("parallel map exceeded %ss" % timeout)
    finally:
        ex.shutdown(wait=False, cancel_futures=True)
