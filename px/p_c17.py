import os
import common, p_vxbase, cli_cfg

ASSUME = {
 "C17": ["the generated files are produced by the real `monorail config generate`; load+check is Config::new + Config::check as cli::handle calls them (the CLI slice binds this to every subcommand)",
         "single edits only (one byte edit, truncation or append per case)"],
 "C18": ["serialisations differ in whitespace, key order and size only; values outside the four bases (three sizes; one with quotes, `//`, `/*`, `#`, backslashes and braces inside strings) are not explored"],
}

def run(prop, tier):
    os.environ["VX_MONORAIL"] = common.MONORAIL
    r = common.run_vx(prop.lower(), tier)
    cli_cfg.merge(r, prop, tier)
    return r, ASSUME[prop]

def replay(prop, path):
    os.environ["VX_MONORAIL"] = common.MONORAIL
    return p_vxbase.replay(prop, path, prop.lower())
