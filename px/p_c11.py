"""C11: executables get the documented argv, working directory and resolution (trace mode)."""
import itertools
import json
import multiprocessing
import os
import traceback

import common
import scratch as sc

VOCAB = ["", "a b", "\"q\"", "--x=1", "é", "$HOME", "*", "a\nb", "'s'", "\\n", "features=x,y", "1,2,3", "a;b|c&d:e"]   # (separators of every common list syntax)
KINDS = [None, "nocmd", "args"]


MNAME_SLASH = {"base": "base", "m1": "ci/linux", "m2": "os/v1/x"}   # argmap names with a path separator: <argmap dir>/ci/linux.json (desc["dotted"] == "slash")
MNAME = {"base": "base", "m1": "v1.2", "m2": "ci.linux"}   # argmap names with a dot (desc["dotted"])


def file_args(t, m, c, extra):
    return ["%s-%s-%s" % (t, m, c)] + list(extra)


def build(desc, s):
    n = desc["targets"]
    names = ["t%d" % i for i in range(n)]
    if desc.get("nested"):
        names = ["t0"] + ["t0/sub%d" % i for i in range(1, n)]   # every further target is nested in the first
    cmds = desc["commands"]
    targets = []
    for ti_, t in enumerate(names):
        td = {"path": t}
        if desc.get("chain") and ti_ > 0:
            td["uses"] = [names[ti_ - 1]]
        if desc["argdir"] == "custom":
            td["argmaps"] = {"path": "conf/%s-argmaps" % t}
        elif desc["argdir"] == "shared":
            td["argmaps"] = {"path": "conf/shared-argmaps"}   # one argmap directory for all targets
        if desc.get("argdefs") is not None:
            # the target's configuration carries an argmaps.definitions table (empty, naming something unrelated, or
            # naming one of the files); the files in the argmap directory are used all the same
            td.setdefault("argmaps", {})["definitions"] = {"empty": {}, "unrelated": {"release": {"path": "conf/release-args.json"}},
                                                           "some": {"m1": {"path": os.path.join(t, "monorail/argmap/m1.json")}}}[desc["argdefs"]]
        if desc["cmdsrc"] == "custompath":
            td["commands"] = {"path": "tools/%s-cmds" % t}
        elif desc["cmdsrc"] in ("defpath", "defmissing"):
            td["commands"] = {"definitions": {c: {"path": "ext/%s/%s-impl.sh" % (t, c)} for c in cmds}}
        elif desc["cmdsrc"] == "defempty":
            td["commands"] = {"definitions": {c: {} for c in cmds}}
        targets.append(td)
    if desc.get("order") == "reversed":
        targets = list(reversed(targets))   # declaration order differs from alphabetical order
    elif desc.get("order") == "rotated":
        targets = targets[1:] + targets[:1]
    r = sc.Repo(s, "r", targets)
    expect_exe = {}
    for t in names:
        for c in cmds:
            if desc["cmdsrc"] == "custompath":
                p = r.command_file(t, c, "x", cmd_dir="tools/%s-cmds" % t)
            elif desc["cmdsrc"] == "defmissing":
                # the configured definition path does not exist (renamed away); a same-stem file in the
                # default directory must not be taken instead
                r.command_file(t, c, "x")
                continue
            elif desc["cmdsrc"] == "defpath":
                p = r.command_file(t, c, "x", cmd_dir="ext/%s" % t, name="%s-impl.sh" % c)
                # a decoy with the right stem in the default directory must NOT be chosen
                r.command_file(t, c, "x")
            else:
                if desc.get("decoys"):
                    # entries with the command's stem that are not files: a directory (build.d/), created before the
                    # command file, and - below - a dangling symbolic link (build.bak), created after it
                    os.makedirs(r.path(os.path.join(t, "monorail/cmd", c + ".d")), exist_ok=True)
                    r.write(os.path.join(t, "monorail/cmd", c + ".d", "10-local.conf"), "x\n")
                p = r.command_file(t, c, "x")
                if desc.get("decoys"):
                    os.symlink("gone-" + c + ".sh", r.path(os.path.join(t, "monorail/cmd", c + ".bak")))
                    os.makedirs(r.path(os.path.join(t, "monorail/cmd", c)), exist_ok=True)   # and a directory named exactly like the command
            expect_exe[(t, c)] = p
    expect_args = {}
    MNAME = MNAME_SLASH if desc.get("dotted") == "slash" else globals()["MNAME"]
    shared = desc["argdir"] == "shared"
    for ti, t in enumerate(names):
        adir = ("conf/%s-argmaps" % t) if desc["argdir"] == "custom" else "conf/shared-argmaps" if shared else os.path.join(t, "monorail/argmap")
        if shared:
            t = "shared"   # the files are the same for every target, and so are the expected arguments
        if desc.get("argdir_is_file") and ti == 1:
            # where this target's argmap directory would be there is a regular file: its argmap files do not
            # exist (for a reason other than "no such file"), so they contribute nothing
            r.write(adir, "not a directory\n")
        for m in ("base", "m1", "m2"):
            kind = desc["files"][0 if shared else ti][m]
            if desc.get("dotted") and m != "base":
                # decoys named after the part before the dot (v1.json next to v1.2.json, ci.json next to ci.linux.json)
                r.write(os.path.join(adir, (MNAME[m].rsplit("/", 1)[-1] if desc["dotted"] == "slash" else MNAME[m].split(".")[0]) + ".json"), json.dumps({c: ["decoy-" + m] for c in cmds}))
            if kind is None:
                continue
            if kind == "nocmd":
                body = {"other": ["zzz"]}
            else:
                body = {c: file_args(t, m, c, desc["vocab"].get(m, [])) for c in cmds}
                if desc.get("nested") and ti == 0:
                    # keys that spell "<rest of a nested target's path>/<command>": they name no command of t0
                    for i_ in range(1, n):
                        for c in cmds:
                            body["sub%d/%s" % (i_, c)] = ["--belongs-to-no-command"]
            r.write(os.path.join(adir, (MNAME[m] if desc.get("dotted") else m) + ".json"), json.dumps(body))
        fi = 0 if shared else ti
        for c in cmds:
            exp = []
            if not desc["no_base"] and desc["files"][fi]["base"] == "args":
                exp += file_args(t, "base", c, desc["vocab"].get("base", []))
            for m in desc["argmaps_opt"] or []:
                if m in ("m1", "m2") and desc["files"][fi][m] == "args":
                    exp += file_args(t, m, c, desc["vocab"].get(m, []))
            if desc["args"] is not None and ti == 0:
                exp += desc["args"]
            expect_args[(names[ti], c)] = exp
    return r, names, expect_exe, expect_args


def task(desc):
    s = sc.Scratch("c11")
    try:
        r, names, expect_exe, expect_args = build(desc, s)
        args = ["run", "-c"] + desc["commands"]
        if desc.get("via") in ("sequence", "sequence+c"):
            # the same commands reached through a sequence (all of them, or all but the last one, which stays in -c)
            seq_cmds = desc["commands"] if desc["via"] == "sequence" else desc["commands"][:-1]
            r.cfg["sequences"] = {"dev": seq_cmds}
            r.write_cfg()
            args = ["run", "-s", "dev"] + ([] if desc["via"] == "sequence" else ["-c", desc["commands"][-1]])
        selected = names
        if desc["args"] is not None:
            args += ["-t", names[0], "-a"] + desc["args"]
            selected = names[:1]
        elif desc.get("select") == "last+deps":
            # only the last target of the chain is named; --deps pulls in everything it depends on
            args += ["-t", names[-1], "--deps"]
        elif desc.get("select") == "all+deps":
            args += ["-t"] + names + ["--deps"]
        elif desc.get("select") == "explicit":
            args += ["-t"] + names
        elif desc.get("select") == "explicit-twice":
            args += ["-t"] + names + names[:1]   # the first target named twice
        if desc["argmaps_opt"]:
            mn = MNAME_SLASH if desc.get("dotted") == "slash" else MNAME
            args += ["-m"] + [mn.get(m, m) if desc.get("dotted") else m for m in desc["argmaps_opt"]]
        if desc["no_base"]:
            args += ["--no-base-argmaps"]
        ctx = desc.get("context") or []
        if "checkpoint" in ctx:
            # a checkpoint exists and every target has a change since: the same selection, reached through change detection
            r.mr("checkpoint", "update")
            for n_ in names:
                r.write(os.path.join(n_, "changed.txt"), "x\n")
        if "prior-failed" in ctx:
            r.set_script(names[0], desc["commands"][0], ["exit 1"], argv0=expect_exe[(names[0], desc["commands"][0])], nth=1)
        if "prior-failed" in ctx or "prior-ok" in ctx:
            r.mr(*args, env=r.trace_env())
        if "verbose" in ctx:
            r.global_flags = ["-vv"]
        if "listener" in ctx:
            import subprocess, time
            lis = subprocess.Popen([common.MONORAIL, "log", "tail", "--stdout", "--stderr"], cwd=r.dir, env=s.env(),
                                   stdout=subprocess.DEVNULL, stderr=subprocess.DEVNULL, start_new_session=True)
            s.popens.append(lis)
            t_end = time.time() + 10
            while not sc.port_listening(r.log_port):
                if lis.poll() is not None or time.time() > t_end:
                    raise common.EngineError("context: log tail did not start")
                time.sleep(0.02)
        r.clear_traces()
        if desc.get("foreign"):
            r.foreign_cwd()   # monorail is invoked as `-f <abs config>` from another directory
        res = r.mr(*args, env=r.trace_env())
        viol = []
        doc = res.json()
        if desc["cmdsrc"] == "defmissing":
            started = [rec["argv"][0] for rec in r.traces()]
            if started:
                viol.append(("wrong-executable", "the configured definition paths do not exist, yet %s was started" % [os.path.relpath(x, r.dir) for x in started]))
            # (how the run reports a definition whose file is missing is not C11's subject)
            return {"evaluations": 1, "nontrivial": 1,
                    "violations": [{"sig": sig, "detail": d, "rank": len(json.dumps(desc)), "case": {"c11": desc}} for sig, d in viol],
                    "sample": {"args": args, "expected_argv": {}}}
        if res.code != 0 or doc is None:
            viol.append(("run-failed", "exit %s: %s" % (res.code, res.err[:300])))
        traces = r.traces()
        seen = {}
        for rec in traces:
            t = os.path.relpath(rec["cwd"], r.dir)
            exe = rec["argv"][0]
            key = None
            for (tt, c), p in expect_exe.items():
                if p == exe:
                    key = (tt, c)
            if key is None:
                viol.append(("wrong-executable", "started %s (cwd %s) which is not the resolved executable of any (target, command)" % (exe, t)))
                continue
            seen[key] = seen.get(key, 0) + 1
            if t != key[0]:
                viol.append(("wrong-cwd", "%s:%s ran in %s, expected %s" % (key[1], key[0], rec["cwd"], os.path.join(r.dir, key[0]))))
            if rec["argv"][1:] != expect_args[key]:
                viol.append(("wrong-argv", "%s:%s argv %s, expected %s" % (key[1], key[0], rec["argv"][1:], expect_args[key])))
        for t in selected:
            for c in desc["commands"]:
                if seen.get((t, c), 0) != 1:
                    viol.append(("not-started-once", "%s:%s started %d times" % (c, t, seen.get((t, c), 0))))
        nontrivial = 1 if any(expect_args[(t, c)] for t in selected for c in desc["commands"]) else 0
        return {"evaluations": 1, "nontrivial": nontrivial,
                "violations": [{"sig": sig, "detail": d, "rank": len(json.dumps(desc)), "case": {"c11": desc}} for sig, d in viol],
                "sample": {"args": args, "expected_argv": {"%s:%s" % (c, t): expect_args[(t, c)] for t in selected for c in desc["commands"]}}}
    except common.EngineError as e:
        return {"engine_error": str(e)}
    except Exception:
        return {"engine_error": traceback.format_exc()[-1500:]}
    finally:
        s.cleanup()


def scenarios(tier):
    out = []
    opts = [None, ["m1"], ["m2"], ["m1", "m2"], ["m2", "m1"], ["m1", "missing"]]
    plain = {"base": ["b1"], "m1": ["x1"], "m2": ["y1"]}
    # (1) presence lattice x --argmaps x --no-base-argmaps; two targets with complementary files
    for kb, k1, k2 in itertools.product(KINDS, KINDS, KINDS):
        for o in opts:
            for nb in (False, True):
                other = {"base": "args" if kb != "args" else None, "m1": "args" if k1 != "args" else "nocmd", "m2": k2}
                out.append({"targets": 2, "commands": ["build"], "files": [{"base": kb, "m1": k1, "m2": k2}, other],
                            "argmaps_opt": o, "no_base": nb, "args": None, "argdir": "default", "cmdsrc": "default", "vocab": plain})
    # (2) directories and command sources x argmap combos x 1-2 commands x 1-3 targets
    for argdir in ("default", "custom"):
        for cmdsrc in ("default", "custompath", "defpath", "defempty"):
            for o in ([None, ["m1", "m2"], ["m2", "m1"]] if tier == "quick" else opts):
                for cmds in (["build"], ["build", "test"]):
                    for n in ((3,) if tier == "quick" else (1, 2, 3)):
                        files = [{"base": "args", "m1": "args", "m2": "args" if i % 2 == 0 else None} for i in range(n)]
                        for order in ("declared", "reversed", "rotated"):
                            if order != "declared" and (n == 1 or (tier == "quick" and o is not None and cmds == ["build", "test"])):
                                continue
                            out.append({"targets": n, "commands": cmds, "files": files, "argmaps_opt": o, "no_base": False,
                                        "args": None, "argdir": argdir, "cmdsrc": cmdsrc, "vocab": plain, "order": order})
    # (2b) selection modes: dependencies pulled in by --deps (not named in -t) get their argmaps too
    for select in ("last+deps", "all+deps", "explicit"):
        for n in (2, 3):
            for o in (None, ["m1"], ["m2", "m1"]):
                for nb in (False, True):
                    for cmds in (["build"], ["build", "test"]):
                        files = [{"base": "args", "m1": "args", "m2": "args" if i % 2 == 0 else "nocmd"} for i in range(n)]
                        out.append({"targets": n, "commands": cmds, "files": files, "argmaps_opt": o, "no_base": nb, "args": None,
                                    "argdir": "default", "cmdsrc": "default", "vocab": plain, "chain": True, "select": select})
    # (2d) one argmap directory shared by all targets (argmaps.path identical)
    for o in (None, ["m1"], ["m2", "m1"], ["m1", "m1"]):
        for nb in (False, True):
            for n in (2, 3):
                files = [{"base": "args", "m1": "args", "m2": "args"}] * n
                out.append({"targets": n, "commands": ["build", "test"], "files": files, "argmaps_opt": o, "no_base": nb,
                            "args": None, "argdir": "shared", "cmdsrc": "default", "vocab": plain})
    # (2c) invoked with -f from a different directory: cwd, argv and resolution must not change
    for cmdsrc in ("default", "custompath", "defpath", "defempty"):
        for argdir in ("default", "custom"):
            files = [{"base": "args", "m1": "args", "m2": None}, {"base": "args", "m1": "nocmd", "m2": "args"}]
            out.append({"targets": 2, "commands": ["build", "test"], "files": files, "argmaps_opt": ["m1", "m2"], "no_base": False,
                        "args": None, "argdir": argdir, "cmdsrc": cmdsrc, "vocab": plain, "foreign": True})
    # (2k) nested targets; the outer target's argmaps carry keys of the form <nested dir>/<command>
    for o in (None, ["m1"]):
        for sel in (None, "explicit"):
            files = [{"base": "args", "m1": "args", "m2": None}] * 3
            d_ = {"targets": 3, "commands": ["build", "test"], "files": files, "argmaps_opt": o, "no_base": False,
                  "args": None, "argdir": "default", "cmdsrc": "default", "vocab": plain, "nested": True}
            if sel:
                d_["select"] = sel
            out.append(d_)
    # (2n) the command directory also holds same-stem entries that are not files
    for cmds in (["build"], ["build", "test"]):
        for n in (1, 3):
            files = [{"base": "args", "m1": None, "m2": None}] * n
            out.append({"targets": n, "commands": cmds, "files": files, "argmaps_opt": None, "no_base": False,
                        "args": None, "argdir": "default", "cmdsrc": "default", "vocab": plain, "decoys": True})
    # (2m) argmap files that do not exist for other reasons than a missing file: the argmap directory of one target
    # is a regular file; a requested name too long for any file system
    for o in (None, ["m1"], ["m1", "n" * 300], ["n" * 251, "m1"]):
        for adf in (True, False):
            files = [{"base": "args", "m1": "args", "m2": None}, {"base": None, "m1": None, "m2": None}]
            out.append({"targets": 2, "commands": ["build"], "files": files, "argmaps_opt": o, "no_base": False,
                        "args": None, "argdir": "default", "cmdsrc": "default", "vocab": plain, "argdir_is_file": adf})
    # (2l) targets whose configuration has an argmaps.definitions table
    for ad in ("empty", "unrelated", "some"):
        for o in (None, ["m1"], ["m2", "m1"]):
            for nb in (False, True):
                files = [{"base": "args", "m1": "args", "m2": "args"}, {"base": "args", "m1": "nocmd", "m2": None}]
                out.append({"targets": 2, "commands": ["build", "test"], "files": files, "argmaps_opt": o, "no_base": nb,
                            "args": None, "argdir": "default", "cmdsrc": "default", "vocab": plain, "argdefs": ad})
    # (2j) argmap names that contain a dot (v1.2, ci.linux), with decoy files named after the part before the dot
    for argdir in ("default", "custom"):
        for o in (["m1"], ["m2", "m1"], ["m1", "missing"]):
            files = [{"base": "args", "m1": "args", "m2": "args"}, {"base": None, "m1": "args", "m2": None}]
            out.append({"targets": 2, "commands": ["build"], "files": files, "argmaps_opt": o, "no_base": False,
                        "args": None, "argdir": argdir, "cmdsrc": "default", "vocab": plain, "dotted": True})
            # (2m) argmap names with a path separator (ci/linux -> <argmap dir>/ci/linux.json), decoy linux.json beside the directory
            out.append({"targets": 2, "commands": ["build"], "files": files, "argmaps_opt": o, "no_base": False,
                        "args": None, "argdir": argdir, "cmdsrc": "default", "vocab": plain, "dotted": "slash"})
    # (2i) commands reached through -s <sequence> (alone, or followed by -c): same argv as with -c
    for via in ("sequence", "sequence+c"):
        for cmdsrc in ("default", "defpath"):
            for o in (None, ["m2", "m1"]):
                files = [{"base": "args", "m1": "args", "m2": "args"}, {"base": "args", "m1": "nocmd", "m2": None}]
                out.append({"targets": 2, "commands": ["build", "test"], "files": files, "argmaps_opt": o, "no_base": False,
                            "args": None, "argdir": "default", "cmdsrc": cmdsrc, "vocab": plain, "via": via})
    # (2h) the same target named twice in -t
    for cmdsrc in ("default", "defpath"):
        files = [{"base": "args", "m1": "args", "m2": None}] * 2
        out.append({"targets": 2, "commands": ["build"], "files": files, "argmaps_opt": ["m1"], "no_base": False,
                    "args": None, "argdir": "default", "cmdsrc": cmdsrc, "vocab": plain, "select": "explicit-twice"})
    # (2g) command names with a dot that share their stem with another command (build / build.release)
    for cmdsrc in ("default", "custompath", "defpath", "defempty"):
        for cmds in (["build", "build.release"], ["build.release"]):
            files = [{"base": "args", "m1": "args", "m2": None}] * 2
            out.append({"targets": 2, "commands": cmds, "files": files, "argmaps_opt": ["m1"], "no_base": False,
                        "args": None, "argdir": "default", "cmdsrc": cmdsrc, "vocab": plain})
    # (2f) a definition path that does not exist while a same-stem file sits in the default directory
    for n in (1, 2):
        for cmds in (["build"], ["build", "test"]):
            files = [{"base": "args", "m1": None, "m2": None}] * n
            out.append({"targets": n, "commands": cmds, "files": files, "argmaps_opt": None, "no_base": False,
                        "args": None, "argdir": "default", "cmdsrc": "defmissing", "vocab": plain})
    # (2e) the surroundings of a run: an earlier failed / successful run's records on disk, a checkpoint with
    # every target changed since, a listener attached
    for ctx in (["prior-failed"], ["prior-ok"], ["checkpoint"], ["listener"], ["verbose"], ["prior-failed", "checkpoint", "listener"]):
        for cmdsrc in ("default", "defpath"):
            for o in (None, ["m2", "m1"]):
                files = [{"base": "args", "m1": "args", "m2": None}, {"base": "args", "m1": "nocmd", "m2": "args"}]
                out.append({"targets": 2, "commands": ["build", "test"], "files": files, "argmaps_opt": o, "no_base": False,
                            "args": None, "argdir": "default", "cmdsrc": cmdsrc, "vocab": plain, "context": ctx})
    # (3) --args with one command and one explicit target
    arg_sets = [[v] for v in VOCAB if not v.startswith("-")] + [["x", "y z"], ["", ""], ["a\nb", "*"]]
    for a in arg_sets:
        for kb in (None, "args"):
            for o in (None, ["m1"]):
                for nb in (False, True):
                    out.append({"targets": 2, "commands": ["build"], "files": [{"base": kb, "m1": "args", "m2": None}, {"base": "args", "m1": "args", "m2": "args"}],
                                "argmaps_opt": o, "no_base": nb, "args": a, "argdir": "default", "cmdsrc": "default", "vocab": plain})
    # (4) argument alphabet: every string in every slot class, and all pairs for a 2-string vocabulary
    for v in VOCAB:
        for slot in ("base", "m1", "m2"):
            vocab = dict(plain)
            vocab[slot] = [v]
            out.append({"targets": 2, "commands": ["build"], "files": [{"base": "args", "m1": "args", "m2": "args"}] * 2,
                        "argmaps_opt": ["m1", "m2"], "no_base": False, "args": None, "argdir": "default", "cmdsrc": "default", "vocab": vocab})
    two = ["a b", ""]
    for vb, v1, v2, va in itertools.product(two, two, two, two):
        out.append({"targets": 2, "commands": ["build"], "files": [{"base": "args", "m1": "args", "m2": "args"}] * 2,
                    "argmaps_opt": ["m2", "m1"], "no_base": False, "args": [va], "argdir": "custom", "cmdsrc": "defpath",
                    "vocab": {"base": [vb], "m1": [v1], "m2": [v2]}})
    return out


def run(prop, tier):
    descs = scenarios(tier)
    results = common.pmap(task, descs, chunksize=4)
    errs = [r["engine_error"] for r in results if "engine_error" in r]
    if errs:
        raise common.EngineError("; ".join(errs[:2]))
    agg = {"evaluations": sum(r["evaluations"] for r in results), "distinct_nontrivial": sum(r["nontrivial"] for r in results),
           "violations": [v for r in results for v in r["violations"]], "samples": [r["sample"] for r in results[:: max(1, len(results) // 4)]][:5],
           "exhaustive": True,
           "rule": "(1) per-target presence lattice {absent, without the command, with args}^3 for base/m1/m2 x --argmaps in {-, m1, m2, m1 m2, m2 m1, m1 missing} x --no-base-argmaps, two targets with complementary files; (2) argmap directory {default, custom} x command source {default dir, custom commands.path, explicit definition path with a decoy in the default dir, empty definition} x argmap orders x 1-2 commands x 1-3 targets x declaration order {alphabetical, reversed, rotated}; (2m) argmap names containing a path separator (ci/linux, os/v1/x) under the default and a custom argmap directory; (2b) dependency chains selected by -t <last> --deps, -t <all> --deps and -t <all>; (3) --args values from the argument alphabet with one command and one explicit target; (4) every alphabet string in every slot class and all combinations of a 2-string vocabulary over the four slots; each case = one real run with traced children; oracle: argv[1..] == base ++ argmaps in order ++ args verbatim, cwd == target directory, argv[0] == resolved executable; non-trivial = runs whose expected argv is non-empty"}
    by = {}
    for v in agg["violations"]:
        by[v["sig"]] = by.get(v["sig"], 0) + 1
    agg["by_sig"] = by
    agg["violation_count"] = len(agg["violations"])
    agg["violations"] = sorted(agg["violations"], key=lambda v: v["rank"])[:100]
    return agg, ["argument values beginning with '-' are only placed in argmap files (clap rejects them as --args values)",
                 "children run in trace mode; completion order is irrelevant to this property"]


def replay(prop, path):
    body = json.load(open(path))
    r = task(body["case"]["c11"])
    if "engine_error" in r:
        print("ENGINE:", r["engine_error"])
        return 2
    if r["violations"]:
        for v in r["violations"]:
            print("REPLAY property=%s still violates: [%s] %s" % (prop, v["sig"], v["detail"][:300]))
        print("VIOLATION property=%s replay=%s" % (prop, path))
        return 1
    print("REPLAY property=%s: case passes on the current tree" % prop)
    return 0
