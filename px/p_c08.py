import json
import os
import time
import traceback

import common, p_vxbase, cli_cfg
import ctl as ctlmod
import scratch as sc

ASSUME = ["select! start indices are covered through the listed seeds (an enumerated, not provably complete, set); the engine reports how many scripts' stored bytes differed between seeds",
          "in the in-process parts and the end-to-end slice the two compressor OS threads run free (each stream's requests are FIFO on one channel and files are not shared); in the ordering scenarios every iteration of their loops is released by the controller",
          "a failed shutdown send (C06's subject) is not judged here"]

# ------------------------------------------------------------------------------------------ orderings
# Real `run`, controlled children, and the compressor threads under the controller's hand: every
# iteration of a compressor thread's loop is a guarded point (`compressor.loop:<x>`). A group whose
# members write a little and exit (one of them possibly with a failure) is run while the compressor
# threads are kept behind the rest of the run by a chosen amount.

POLICIES = ["free", "behind-until-joined", "behind-until-shutdown", "one-request-behind"]


def order_task(desc):
    n, fail, policy, tail = desc["n"], desc["fail"], desc["policy"], desc.get("tail", False)
    ts = [{"path": "g%d" % i} for i in range(n)] + [{"path": "post", "uses": ["g%d" % i for i in range(n)]}]
    s = sc.Scratch("c08ord")
    try:
        r = sc.Repo(s, "r", ts, commands={t["path"]: {"build": "x"} for t in ts}, init_git=False)
        c = ctlmod.Controller(s)
        try:
            state = {"joined": False, "shutdown": False, "held": []}

            def on_hit(h):
                if h.name.startswith("group.post_join"):
                    state["joined"] = True
                    return b"c"
                if h.name.startswith("group.pre_shutdown"):
                    state["shutdown"] = True
                    return b"c"
                if h.name.startswith("compressor.loop"):
                    if policy == "free":
                        return b"c"
                    if policy == "behind-until-joined" and state["joined"]:
                        return b"c"
                    if policy == "behind-until-shutdown" and state["shutdown"]:
                        return b"c"
                    state["held"].append(h)
                    h.t_held = time.time()
                    return None
                return b"c"

            def tick():
                for h in list(state["held"]):
                    go = (policy == "behind-until-joined" and state["joined"]) or (policy == "behind-until-shutdown" and state["shutdown"]) \
                        or (policy == "one-request-behind" and time.time() - h.t_held > 0.35) or time.time() - h.t_held > 8
                    if go and h.state == "held":
                        state["held"].remove(h)
                        c.resume(h)
            c.auto_points = on_hit
            c.tick_hook = tick
            env = s.env(c.env(points=["compressor.loop", "group.post_join", "group.pre_shutdown"]))
            p = c.spawn("run", [common.MONORAIL, "run", "-c", "build"], r.dir, env)
            c.wait(lambda: len(c.waiting()) >= n or p.done(), 15)
            grp = sorted(c.waiting(), key=lambda ch: ch.cwd)
            if len(grp) < n:
                return {"engine_error": "group did not arrive (exit %s %s)" % (p.code, p.err[:200])}
            want = {}
            # members that end well first, each after two bursts a flush period apart
            order = [ch for i, ch in enumerate(grp) if i != fail] + ([grp[fail]] if fail is not None else [])
            for ch in order:
                t = os.path.relpath(ch.cwd, r.dir)
                o1, o2 = ("first of %s\n" % t).encode(), ("second of %s\n" % t).encode() + (b"tail without newline" if tail else b"")
                e1 = ("stderr of %s\n" % t).encode()
                c.send(ch, ["out " + o1.hex(), "err " + e1.hex()])
                c.wait_acks(ch, 10)
                c.wait(lambda: False, 0.6)
                c.send(ch, ["out " + o2.hex()])
                c.wait_acks(ch, 10)
                want[("stdout.zst", t)] = o1 + o2
                want[("stderr.zst", t)] = e1
                is_fail = fail is not None and ch is grp[fail]
                if is_fail:
                    c.wait(lambda: False, 0.4)   # everything the others wrote has long been read
                c.release(ch, 1 if is_fail else 0)
                c.wait(lambda: ch.state == "gone" or p.done(), 10)
            t_end = time.time() + 30
            while not p.done() and time.time() < t_end:
                c.pump(0.01)
                for ch in list(c.waiting()):
                    t = os.path.relpath(ch.cwd, r.dir)
                    o = ("only of %s\n" % t).encode()
                    want[("stdout.zst", t)] = o
                    want[("stderr.zst", t)] = b""
                    c.release(ch, 0, ["out " + o.hex()])
            viol = []
            if not p.done():
                c.kill(p, group=True)
                c.wait(lambda: p.done(), 5)
                viol.append(("run-hung", "policy %s: the run did not finish" % policy))
            doc = sc.Result(p.code, p.out, p.err).json()
            if doc is None:
                viol.append(("no-result-document", "policy %s: exit %s %s" % (policy, p.code, p.err[:200])))
            else:
                for (f, t), w in sorted(want.items()):
                    h = doc["out"]["run"]["targets"].get(t)
                    fp = os.path.join(doc["out"]["run"]["path"], "build", h or "?", f)
                    try:
                        got = sc.zstd_cat(fp)
                    except Exception as e:
                        viol.append(("log-undecodable", "policy %s: %s of %s: %s" % (policy, f, t, str(e)[:120])))
                        continue
                    if got != w:
                        viol.append(("bytes-lost-behind-compressor", "policy %s, failing member %s: %s of %s (ran to completion) holds %r, it wrote %r" % (policy, fail, f, t, got[:60], w[:60])))
            return {"evaluations": 1, "hits": len(c.hits), "doc": doc, "exit": p.code,
                    "started": sorted(os.path.relpath(ch.cwd, r.dir) for ch in c.children),
                    "violations": [{"sig": sig, "detail": d, "rank": 20_000_000_000 + n, "case": {"c08_order": desc}} for sig, d in viol]}
        finally:
            c.close()
    except common.EngineError as e:
        return {"engine_error": str(e)}
    except Exception:
        return {"engine_error": traceback.format_exc()[-1500:]}
    finally:
        s.cleanup()


def order_scenarios(tier):
    out = []
    for n in ((2,) if tier == "quick" else (2, 3)):
        for fail in [None] + list(range(n)):
            for policy in POLICIES:
                out.append({"n": n, "fail": fail, "policy": policy, "tail": fail == 0})
    return out


def run(prop, tier):
    r = common.run_vx("c08", tier)
    # model_checking keys: states = distinct stored outcomes, transitions = executions
    r["states"] = max(1, r.get("extra", {}).get("stored_outcome_hashes_set_count", 1))
    r["transitions"] = r.get("evaluations", 1)
    cli_cfg.merge(r, prop, tier)
    res = common.pmap(order_task, order_scenarios(tier))
    errs = [x["engine_error"] for x in res if "engine_error" in x]
    if errs:
        raise common.EngineError("C08 orderings: " + "; ".join(errs[:2]))
    ov = [v for x in res for v in x["violations"]]
    r["evaluations"] = r.get("evaluations", 0) + len(res)
    r["transitions"] = r.get("transitions", 0) + sum(x["hits"] for x in res)
    r["ordering_scenarios"] = len(res)
    r.setdefault("violations", []).extend(ov[:20])
    r["violation_count"] = r.get("violation_count", 0) + len(ov)
    by = r.setdefault("by_sig", {})
    for v in ov:
        by[v["sig"]] = by.get(v["sig"], 0) + 1
    r["rule"] = r.get("rule", "") + "; plus %d ordering scenarios on the real run: a group of 2 (thorough 3) controlled members writing two bursts a flush period apart and exiting (none / each one failing last), with the compressor threads' loop iterations (guarded point compressor.loop) free, held until the group is joined, held until the first shutdown request is about to be sent, or one request behind (0.35 s per iteration): every member ran to completion, so every stored log must equal what it wrote" % len(res)
    return r, ASSUME

def replay(prop, path):
    body = json.load(open(path))
    if "c08_order" in body.get("case", {}):
        x = order_task(body["case"]["c08_order"])
        if "engine_error" in x:
            print("ENGINE:", x["engine_error"])
            return 2
        for v in x["violations"]:
            print("REPLAY property=%s still violates: [%s] %s" % (prop, v["sig"], v["detail"][:300]))
        if x["violations"]:
            print("VIOLATION property=%s replay=%s" % (prop, path))
            return 1
        print("REPLAY property=%s: case passes on the current tree" % prop)
        return 0
    return p_vxbase.replay(prop, path, "c08")
