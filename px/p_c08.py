import common, p_vxbase, cli_cfg

ASSUME = ["select! start indices are covered through the listed seeds (an enumerated, not provably complete, set); the engine reports how many scripts' stored bytes differed between seeds",
          "the two compressor OS threads run free; each stream's requests are FIFO on one channel and files are not shared",
          "a failed shutdown send (C06's subject) is not judged here"]

def run(prop, tier):
    r = common.run_vx("c08", tier)
    # model_checking keys: states = distinct stored outcomes, transitions = executions
    r["states"] = max(1, r.get("extra", {}).get("stored_outcome_hashes_set_count", 1))
    r["transitions"] = r.get("evaluations", 1)
    cli_cfg.merge(r, prop, tier)
    return r, ASSUME

def replay(prop, path):
    return p_vxbase.replay(prop, path, "c08")
