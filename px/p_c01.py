import common, p_vxbase, cli_slices

ASSUME = ["paths are normalised relative paths inside the stated universe",
          "the documented-silent case (a uses entry equal to the path of a target that ignores the change) is accepted either way",
          "a configuration whose dependency relation is cyclic may be rejected with the cycle error instead of being analysed"]

def run(prop, tier):
    r = common.run_vx("c01", tier)
    cli_slices.merge(r, prop, tier)
    return r, ASSUME

def replay(prop, path):
    return p_vxbase.replay(prop, path, "c01")
