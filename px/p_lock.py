"""C14: mutating invocations on one repository are mutually exclusive.
Explicit-state search of the contender machine on real processes: every contender is held at
`lock.pre:<api>` (before acquire) and `lock.post:<api>` (after acquire) by the controller; paths
are sequences of {attempt i, finish holder, kill holder}; each path is executed from scratch."""
import json
import multiprocessing
import os
import signal
import time
import traceback
import itertools

import common
import ctl as ctlmod
import scratch as sc

APIS = {
    "run": ["run", "-c", "build"],
    "checkpoint_update": ["checkpoint", "update"],
    "checkpoint_delete": ["checkpoint", "delete"],
    "out_delete": ["out", "delete", "--all"],
    "out_delete_plain": ["out", "delete"],
}
TARGETS = [{"path": "a"}, {"path": "b"}]


def enumerate_paths(n):
    """All maximal event sequences of the abstract machine for n contenders (all started)."""
    paths = []

    def rec(state, holder, path):
        # state[i] in {'pre', 'holding', 'done'}
        moves = []
        for i in range(n):
            if state[i] == "pre":
                moves.append(("A", i))
        if holder is not None:
            moves.append(("F", holder))
            moves.append(("K", holder))
        if not moves:
            paths.append(path)
            return
        for kind, i in moves:
            st = list(state)
            h = holder
            if kind == "A":
                if holder is None:
                    st[i] = "holding"
                    h = i
                else:
                    st[i] = "done"  # must lose
            else:
                st[i] = "done"
                h = None
            rec(st, h, path + [[kind, i]])
    rec(["pre"] * n, None, [])
    if n == 2:
        # an attempt that is still in progress when the holder finishes or is killed: the contender
        # began to acquire while the lock was held, so it must still end with a lock error
        for i in range(2):
            j = 1 - i
            for end in ("F", "K"):
                paths.append([["A", i], ["O", j], [end, i]])
    return paths


def execute(desc):
    apis, path = desc["apis"], desc["path"]
    s = sc.Scratch("c14")
    try:
        r = sc.Repo(s, "r", TARGETS, commands={"a": {"build": "x"}, "b": {"build": "x"}})
        if any(k == "O" for k, _ in path):
            # overlapped attempts: a generous bind timeout, so that an implementation which keeps
            # retrying while the lock is held is still retrying when the holder goes away
            r.cfg["server"]["lock"]["bind_timeout_ms"] = 6000
            r.write_cfg()
            r.commit("bind timeout")
        # recorded state a loser could damage: a checkpoint and one completed run with logs
        r.set_script("a", "build", ["out " + b"first run\n".hex(), "exit 0"])
        r.set_script("b", "build", ["out " + b"first run b\n".hex(), "exit 0"])
        res = r.mr("run", "-c", "build", env=r.trace_env())
        if res.code != 0:
            raise common.EngineError("seed run failed %r" % res)
        r.write("a/new.txt", "x\n")
        if r.mr("checkpoint", "update", "-p").code != 0:
            raise common.EngineError("seed checkpoint failed")
        viol = []
        pristine = sc.snapshot(r.out_dir())   # before any contender exists
        touched = False                       # becomes True once a holder was allowed to work
        c = ctlmod.Controller(s)
        states = set()
        try:
            env = s.env(c.env(points=["lock."]))
            procs = []
            for i, api in enumerate(apis):
                p = c.spawn("c%d:%s" % (i, api), [common.MONORAIL] + APIS[api], r.dir, env)
                procs.append(p)
                ok = c.wait(lambda: any(h.pid == p.p.pid and h.name.startswith("lock.pre") for h in c.held()) or p.done(), 10)
                if p.done() or not ok:
                    raise common.EngineError("contender %s did not reach lock.pre (exit %s, %s)" % (api, p.code, p.err[:200]))
            status = ["pre"] * len(apis)
            holder = None
            overlapped = None

            def hit_of(i, prefix):
                for h in c.held():
                    if h.pid == procs[i].p.pid and h.name.startswith(prefix):
                        return h
                return None

            def at_post():
                return [i for i in range(len(apis)) if hit_of(i, "lock.post") is not None]

            for kind, i in path:
                states.add((tuple(status), holder))
                p = procs[i]
                if kind == "A":
                    before = sc.snapshot(r.out_dir())
                    nchildren = len(c.children)
                    c.resume(hit_of(i, "lock.pre"))
                    c.wait(lambda: hit_of(i, "lock.post") is not None or p.done(), 15)
                    got_lock = hit_of(i, "lock.post") is not None
                    if holder is None:
                        if not got_lock:
                            viol.append(("free-lock-not-acquired", "%s attempted while nobody holds the lock (after %s) but did not acquire it: exit %s %s" % (apis[i], path[:path.index([kind, i])], p.code, p.err[:200])))
                            status[i] = "done"
                        else:
                            holder = i
                            status[i] = "holding"
                    else:
                        if got_lock:
                            viol.append(("two-holders", "%s acquired the lock while %s holds it" % (apis[i], apis[holder])))
                            both = at_post()
                            status[i] = "holding"
                            # let the intruder finish so the scenario can end
                            c.resume(hit_of(i, "lock.post"))
                            c.wait(lambda: p.done() or len(c.waiting()) > 0, 5)
                            for ch in list(c.waiting()):
                                c.release(ch, 0)
                            c.wait(lambda: p.done(), 10)
                            status[i] = "done"
                        else:
                            status[i] = "done"
                            err = sc.Result(p.code, p.out, p.err).err_json() or {}
                            if p.code == 0 or err.get("type") != "server" or "Lock acquisition failed" not in str(err.get("message")):
                                viol.append(("loser-not-a-lock-error", "%s lost the lock but exited %s with %s" % (apis[i], p.code, p.err[:200])))
                            if len(c.children) != nchildren:
                                viol.append(("loser-started-executable", "%s lost the lock but an executable was started" % apis[i]))
                            after = sc.snapshot(r.out_dir())
                            if not touched and after != pristine and after == before:
                                diff = sorted(set(after.items()) ^ set(pristine.items()))[:4]
                                viol.append(("contender-modified-state-before-locking", "no invocation has been past lock acquisition and finished, yet <out_dir> differs from its state before the contenders were started: %s" % diff))
                            if after != before:
                                diff = sorted(set(after.items()) ^ set(before.items()))[:4]
                                viol.append(("loser-modified-state", "%s lost the lock but <out_dir> changed: %s" % (apis[i], diff)))
                    if len(at_post()) > 1:
                        viol.append(("two-holders", "contenders %s are both past lock acquisition" % [apis[k] for k in at_post()]))
                elif kind == "O":
                    nchildren = len(c.children)
                    c.resume(hit_of(i, "lock.pre"))
                    # the holder stays at lock.post for this whole window, so the attempt begins while
                    # the lock is held
                    c.wait(lambda: p.done() or hit_of(i, "lock.post") is not None, 2.0)
                    if hit_of(i, "lock.post") is not None:
                        viol.append(("two-holders", "%s acquired the lock while %s holds it" % (apis[i], apis[holder])))
                    overlapped = i
                    status[i] = "attempting" if not p.done() else "done"
                elif kind == "F":
                    touched = True
                    c.resume(hit_of(i, "lock.post"))
                    t_end = time.time() + 20
                    while not p.done() and time.time() < t_end:
                        c.pump(0.01)
                        for ch in list(c.waiting()):
                            c.release(ch, 0, ["out " + b"contender run\n".hex()])
                    if not p.done():
                        viol.append(("holder-hung", "%s did not finish after acquiring" % apis[i]))
                        c.kill(p, group=True)
                        c.wait(lambda: p.done(), 5)
                    status[i] = "done"
                    holder = None
                else:  # K
                    c.kill(p)
                    c.wait(lambda: p.done(), 10)
                    status[i] = "done"
                    holder = None
            if overlapped is not None:
                pj = procs[overlapped]
                t_end = time.time() + 12
                while not pj.done() and time.time() < t_end:
                    c.pump(0.02)
                    h = hit_of(overlapped, "lock.post")
                    if h is not None:
                        c.resume(h)
                    for ch in list(c.waiting()):
                        c.release(ch, 0)
                err = sc.Result(pj.code, pj.out, pj.err).err_json() or {}
                if not pj.done():
                    viol.append(("contender-hung", "%s did not finish" % apis[overlapped]))
                elif pj.code == 0 or err.get("type") != "server" or "Lock acquisition failed" not in str(err.get("message")):
                    viol.append(("contender-acquired-after-waiting", "%s began to acquire while %s held the lock (the holder stayed past acquisition for 2 s after the attempt started) and yet ended with exit %s %s instead of a lock error" % (apis[overlapped], apis[1 - overlapped], pj.code, pj.err[:150])))
                status[overlapped] = "done"
            states.add((tuple(status), holder))
            return {"evaluations": 1, "nontrivial": 1 if any(k == "A" for k, _ in path[1:]) else 0,
                    "states": [list(map(str, st)) for st in states], "transitions": len(path),
                    "violations": [{"sig": sig, "detail": d, "rank": len(apis) * 100 + len(path), "case": {"c14": desc}} for sig, d in viol],
                    "sample": {"apis": apis, "path": path, "exits": [p.code for p in procs]}}
        finally:
            c.close()
    except common.EngineError as e:
        return {"engine_error": str(e)}
    except Exception:
        return {"engine_error": traceback.format_exc()[-1500:]}
    finally:
        s.cleanup()


def execute_nested(desc):
    """A contender that descends from a lock holder: a command executable of a `run` that holds the
    lock starts a mutating invocation on the same repository (with exactly the environment monorail
    gave it) - either while its own run still holds the lock, or after that run was SIGKILLed and an
    unrelated `run` has taken the freed lock. It is an independent invocation like any other and must
    lose."""
    kind, api = desc["nested"], desc["api"]
    s = sc.Scratch("c14n")
    try:
        r = sc.Repo(s, "r", TARGETS, commands={"a": {"build": "x"}, "b": {"build": "x"}})
        r.set_script("a", "build", ["out " + b"first run\n".hex(), "exit 0"])
        r.set_script("b", "build", ["out " + b"first run b\n".hex(), "exit 0"])
        if r.mr("run", "-c", "build", env=r.trace_env()).code != 0:
            raise common.EngineError("seed run failed")
        r.write("a/new.txt", "x\n")
        if r.mr("checkpoint", "update", "-p").code != 0:
            raise common.EngineError("seed checkpoint failed")
        viol = []
        c = ctlmod.Controller(s)
        try:
            env = s.env(c.env())
            h1 = c.spawn("holder1", [common.MONORAIL, "run", "-c", "build", "-t", "a", "b"], r.dir, env)
            if not c.wait(lambda: len(c.waiting()) >= 1 or h1.done(), 15) or h1.done():
                raise common.EngineError("holder run did not start its commands (exit %s %s)" % (h1.code, h1.err[:200]))
            contender = c.waiting()[0]
            holder = h1
            if kind == "orphan-of-killed-holder":
                c.kill(h1)
                c.wait(lambda: h1.done(), 10)
                h2 = c.spawn("holder2", [common.MONORAIL, "run", "-c", "build", "-t", "a", "b"], r.dir, env)
                ok = c.wait(lambda: len(c.waiting()) >= 2 or h2.done(), 15)
                if h2.done() or not ok:
                    viol.append(("free-lock-not-acquired", "a run started after the holder was SIGKILLed did not get going: exit %s %s" % (h2.code, h2.err[:200])))
                    return {"evaluations": 1, "nontrivial": 1, "states": [], "transitions": 2,
                            "violations": [{"sig": sig, "detail": d, "rank": 50, "case": {"c14n": desc}} for sig, d in viol], "sample": desc}
                holder = h2
            before = sc.snapshot(os.path.join(r.out_dir(), "tracking"))
            outfile = os.path.join(s.dir, "nested.json")
            argv = [common.MONORAIL, "-f", os.path.join(r.dir, "Monorail.json")] + APIS[api]
            c.send(contender, ["spawn %s %s" % (outfile, "\0".join(argv).encode().hex())])
            if not c.wait_acks(contender, 30) or not os.path.exists(outfile):
                raise common.EngineError("nested invocation did not return")
            res = json.load(open(outfile))
            err = sc.Result(res["code"], bytes.fromhex(res["out"]), bytes.fromhex(res["err"]))
            ej = err.err_json() or {}
            who = "a %s started by a command of %s" % (" ".join(APIS[api]), "the run that holds the lock" if kind == "child-of-holder" else "a SIGKILLed run, while another run holds the lock")
            if holder.done():
                raise common.EngineError("the holder ended before the nested invocation was judged")
            if res["code"] == 0 or ej.get("type") != "server" or "Lock acquisition failed" not in str(ej.get("message")):
                viol.append(("nested-contender-not-a-lock-error", "%s exited %s with %s" % (who, res["code"], err.err[:200])))
            after = sc.snapshot(os.path.join(r.out_dir(), "tracking"))
            if after != before:
                viol.append(("loser-modified-state", "%s changed <out_dir>/tracking: %s" % (who, sorted(set(after.items()) ^ set(before.items()))[:4])))
            t_end = time.time() + 20
            while not holder.done() and time.time() < t_end:
                c.pump(0.01)
                for ch in list(c.waiting()):
                    c.release(ch, 0)
            if not holder.done():
                viol.append(("holder-hung", "the holding run did not finish"))
            return {"evaluations": 1, "nontrivial": 1, "states": [["nested", kind, api]], "transitions": 3,
                    "violations": [{"sig": sig, "detail": d, "rank": 50, "case": {"c14n": desc}} for sig, d in viol],
                    "sample": {"nested": kind, "api": api, "nested_exit": res["code"], "holder_exit": holder.code}}
        finally:
            c.close()
    except common.EngineError as e:
        return {"engine_error": str(e)}
    except Exception:
        return {"engine_error": traceback.format_exc()[-1500:]}
    finally:
        s.cleanup()


def execute_ports(desc):
    """Lock ports at and beyond the end of the valid range (65535, 65536, 70000, 131072): whatever the
    implementation makes of such a value, two invocations that share it must never both be past
    acquisition; if it rejects the value, it must reject it for every invocation. Run serially in one
    task because 65535 is a real, fixed port."""
    s = sc.Scratch("c14p")
    try:
        viol = []
        trans = 0
        for port in desc["ports"]:
            for api in desc["apis"]:
                r = sc.Repo(s, "r%d-%s" % (port, api), TARGETS, commands={"a": {"build": "x"}, "b": {"build": "x"}})
                if r.mr("checkpoint", "update").code != 0:
                    raise common.EngineError("seed checkpoint failed")
                r.cfg["server"]["lock"]["port"] = port
                r.write_cfg()
                r.commit("lock port %d" % port)
                c = ctlmod.Controller(s)
                try:
                    env = s.env(c.env())
                    h = c.spawn("holder", [common.MONORAIL, "run", "-c", "build", "-t", "a", "b"], r.dir, env)
                    c.wait(lambda: len(c.waiting()) >= 1 or h.done(), 15)
                    holding = not h.done() and len(c.waiting()) >= 1
                    before = sc.snapshot(os.path.join(r.out_dir(), "tracking"))
                    con = r.mr(*APIS[api])
                    after = sc.snapshot(os.path.join(r.out_dir(), "tracking"))
                    trans += 2
                    ej = con.err_json() or {}
                    if holding:
                        if con.code == 0:
                            viol.append(("two-holders", "lock port %d: %s ran to completion (exit 0) while a run holds the lock for the same configured address" % (port, " ".join(APIS[api]))))
                        elif ej.get("type") != "server":
                            viol.append(("loser-not-a-lock-error", "lock port %d: %s exited %s with %s" % (port, " ".join(APIS[api]), con.code, con.err[:200])))
                        if after != before:
                            viol.append(("loser-modified-state", "lock port %d: %s changed <out_dir>/tracking while a run holds the lock" % (port, " ".join(APIS[api]))))
                    else:
                        # the value was refused for the run: then it must be refused for everybody
                        if con.code == 0:
                            viol.append(("lock-address-accepted-by-some", "lock port %d: the run refused it (exit %s %s) but %s exited 0" % (port, h.code, h.err[:120], " ".join(APIS[api]))))
                    t_end = time.time() + 15
                    while not h.done() and time.time() < t_end:
                        c.pump(0.01)
                        for ch in list(c.waiting()):
                            c.release(ch, 0)
                finally:
                    c.close()
        return {"evaluations": len(desc["ports"]) * len(desc["apis"]), "nontrivial": 1, "states": [["ports"] + list(map(str, desc["ports"]))], "transitions": trans,
                "violations": [{"sig": sig, "detail": d, "rank": 40, "case": {"c14p": desc}} for sig, d in viol],
                "sample": {"lock_ports": desc["ports"], "apis": desc["apis"]}}
    except common.EngineError as e:
        return {"engine_error": str(e)}
    except Exception:
        return {"engine_error": traceback.format_exc()[-1500:]}
    finally:
        s.cleanup()


def execute_exit_tail(desc):
    """The lock must cover everything the holder does, to the end of its process: a `run` that reuses a
    slot holding a very large earlier run (many thousand directories) is followed, from the moment its
    last executable has exited until its process is gone, by back-to-back contenders. If a contender
    completes successfully while the holder's process is still alive AND the holder goes on changing
    <out>/run after that, both were past acquisition at the same time."""
    n_dirs = desc["dirs"]
    s = sc.Scratch("c14t")
    try:
        r = sc.Repo(s, "r", TARGETS, commands={"a": {"build": "x"}, "b": {"build": "x"}}, max_retained_runs=1)
        if r.mr("run", "-c", "build", "-t", "a", env=r.trace_env()).code != 0:
            raise common.EngineError("first run failed")
        slot = os.path.join(r.out_dir(), "run", "1")
        for i in range(n_dirs):
            os.makedirs(os.path.join(slot, "bulk", "d%02d" % (i % 50), "x%05d" % i))
        viol = []
        c = ctlmod.Controller(s)
        try:
            h = c.spawn("holder", [common.MONORAIL, "run", "-c", "build", "-t", "a"], r.dir, s.env(c.env()))
            if not c.wait(lambda: len(c.waiting()) >= 1 or h.done(), 30) or h.done():
                raise common.EngineError("holder run did not start its command (exit %s %s)" % (h.code, h.err[:200]))
            for ch in list(c.waiting()):
                c.release(ch, 0)
            def run_entries():
                n = 0
                for _, ds, fs in os.walk(os.path.join(r.out_dir(), "run")):
                    n += len(ds) + len(fs)
                return n
            attempts = 0
            t_end = time.time() + 30
            while h.p.poll() is None and time.time() < t_end:
                con = r.mr(*APIS[desc["api"]])   # an API that never touches <out>/run
                attempts += 1
                if con.code == 0 and h.p.poll() is None:
                    # the contender was past acquisition and is done; the holder's process is still there.
                    # Being alive is not a fault (it may only be printing and exiting) - but if what it
                    # recorded under <out>/run still changes from here on, it was still at work, i.e.
                    # past its own acquisition, while the contender was too.
                    n1 = run_entries()
                    c.wait(lambda: h.done(), 30)
                    n2 = run_entries()
                    if n2 != n1:
                        viol.append(("two-holders", "%s completed (exit 0) while the run that reuses a slot with %d directories was still alive, and that run went on changing <out>/run afterwards (%d entries, then %d)" % (" ".join(APIS[desc["api"]]), n_dirs, n1, n2)))
                    break
            c.wait(lambda: h.done(), 30)
            return {"evaluations": 1, "nontrivial": 1, "states": [["exit-tail", desc["api"]]], "transitions": attempts,
                    "violations": [{"sig": sig, "detail": d, "rank": 46, "case": {"c14t": desc}} for sig, d in viol],
                    "sample": {"exit_tail": desc, "contender_attempts_while_holder_alive": attempts}}
        finally:
            c.close()
    except common.EngineError as e:
        return {"engine_error": str(e)}
    except Exception:
        return {"engine_error": traceback.format_exc()[-1500:]}
    finally:
        s.cleanup()


def execute_slow_resolver(desc):
    """The lock host is a name, and for the contender the name service answers slower than
    bind_timeout_ms (fault injected through an LD_PRELOAD shim around getaddrinfo) while a run holds the
    lock: the contender cannot have acquired anything, so it must end with an error and act on nothing."""
    api = desc["api"]
    s = sc.Scratch("c14r")
    try:
        r = sc.Repo(s, "r", TARGETS, commands={"a": {"build": "x"}, "b": {"build": "x"}})
        r.cfg["server"]["lock"]["host"] = "localhost"
        r.cfg["server"]["lock"]["bind_timeout_ms"] = desc["timeout_ms"]
        r.write_cfg()
        r.commit("lock host by name")
        if r.mr("checkpoint", "update").code != 0:
            raise common.EngineError("seed checkpoint failed (lock host localhost)")
        viol = []
        c = ctlmod.Controller(s)
        try:
            h = c.spawn("holder", [common.MONORAIL, "run", "-c", "build", "-t", "a", "b"], r.dir, s.env(c.env()))
            if not c.wait(lambda: len(c.waiting()) >= 1 or h.done(), 15) or h.done():
                raise common.EngineError("holder run did not start its commands (exit %s %s)" % (h.code, h.err[:200]))
            before = sc.snapshot(os.path.join(r.out_dir(), "tracking"))
            nchildren = len(c.children)
            con = r.mr(*APIS[api], env={"LD_PRELOAD": common.SLOW_RESOLVE_SO, "MRV_SLOW_RESOLVE_MS": str(desc["delay_ms"]), "VHELPER_CTL": c.path})
            c.pump(0.05)
            after = sc.snapshot(os.path.join(r.out_dir(), "tracking"))
            if con.code == 0:
                viol.append(("two-holders", "name service slower (%d ms) than bind_timeout_ms (%d): %s ran to completion (exit 0) while a run holds the lock" % (desc["delay_ms"], desc["timeout_ms"], " ".join(APIS[api]))))
            if after != before:
                viol.append(("loser-modified-state", "slow name service: %s changed <out_dir>/tracking while a run holds the lock" % " ".join(APIS[api])))
            if len(c.children) != nchildren:
                viol.append(("loser-started-executable", "slow name service: %s started an executable while a run holds the lock" % " ".join(APIS[api])))
            t_end = time.time() + 15
            while not h.done() and time.time() < t_end:
                c.pump(0.01)
                for ch in list(c.waiting()):
                    c.release(ch, 0)
            return {"evaluations": 1, "nontrivial": 1, "states": [["slow-resolver", api]], "transitions": 2,
                    "violations": [{"sig": sig, "detail": d, "rank": 45, "case": {"c14r": desc}} for sig, d in viol],
                    "sample": {"slow_resolver": desc, "contender_exit": con.code, "contender_stderr": con.err[:120].decode(errors="replace")}}
        finally:
            c.close()
    except common.EngineError as e:
        return {"engine_error": str(e)}
    except Exception:
        return {"engine_error": traceback.format_exc()[-1500:]}
    finally:
        s.cleanup()


def settle_out(c, r, quiet=0.3, limit=6.0):
    """Waits until the holder has stopped creating files below <out_dir> (its log files appear a moment after its
    executables have started): two snapshots `quiet` seconds apart are equal. What changes afterwards while the
    holder's executables are blocked is somebody else's doing."""
    t_end = time.time() + limit
    prev = sc.snapshot(r.out_dir())
    while time.time() < t_end:
        c.wait(lambda: False, quiet)
        cur = sc.snapshot(r.out_dir())
        if cur == prev:
            return
        prev = cur
    raise common.EngineError("the holder's output directory did not settle")


def execute_aged(desc):
    """A `run` that has held the lock for a while (longer than bind_timeout_ms - the default of one second,
    or a short configured one) and is still working: every API tried then is refused like one tried at
    once, starts nothing and changes nothing; afterwards the holder finishes normally."""
    age_s, bind_ms = desc["age_s"], desc.get("bind_ms")
    s = sc.Scratch("c14age")
    try:
        r = sc.Repo(s, "r", TARGETS, commands={"a": {"build": "x"}, "b": {"build": "x"}})
        if bind_ms:
            r.cfg["server"]["lock"]["bind_timeout_ms"] = bind_ms
            r.write_cfg()
            r.commit("bind timeout")
        r.set_script("a", "build", ["out " + b"first run\n".hex(), "exit 0"])
        r.set_script("b", "build", ["out " + b"first run b\n".hex(), "exit 0"])
        if r.mr("run", "-c", "build", env=r.trace_env()).code != 0:
            raise common.EngineError("seed run failed")
        r.write("a/new.txt", "x\n")
        if r.mr("checkpoint", "update", "-p").code != 0:
            raise common.EngineError("seed checkpoint failed")
        viol = []
        c = ctlmod.Controller(s)
        try:
            env = s.env(c.env())
            holder = c.spawn("holder", [common.MONORAIL, "run", "-c", "build", "-t", "a", "b", "--deps"], r.dir, env)
            c.wait(lambda: len(c.waiting()) >= 2 or holder.done(), 15)
            mine = list(c.waiting())
            if len(mine) < 2:
                raise common.EngineError("the holding run did not start its executables (exit %s %s)" % (holder.code, holder.err[:200]))
            c.wait(lambda: False, age_s)
            if desc.get("poke"):
                # somebody else talks to the lock address meanwhile (a port scanner, a TCP health check, a stray
                # client): connections that are closed at once, reset at once, or send a few bytes first
                import socket
                import struct
                for i in range(desc["poke"]):
                    try:
                        k = socket.create_connection(("127.0.0.1", r.lock_port), timeout=1)
                    except OSError:
                        break
                    try:
                        if i % 3 == 1:
                            k.setsockopt(socket.SOL_SOCKET, socket.SO_LINGER, struct.pack("ii", 1, 0))   # close -> RST
                        elif i % 3 == 2:
                            k.sendall(b"GET / HTTP/1.0\r\n\r\n")
                    except OSError:
                        pass
                    k.close()
                c.wait(lambda: False, 0.3)
            settle_out(c, r)
            for api in desc["apis"]:
                before = sc.snapshot(r.out_dir())
                nchildren = len(c.children)
                p = c.spawn("late:" + api, [common.MONORAIL] + APIS[api], r.dir, env)
                t_end = time.time() + 10
                while not p.done() and time.time() < t_end:
                    c.pump(0.01)
                    for ch in list(c.waiting()):
                        if ch not in mine:
                            c.release(ch, 0)   # an intruding run's executables: let it end
                if not p.done():
                    c.kill(p, group=True)
                    c.wait(lambda: p.done(), 5)
                    viol.append(("contender-hung", "%s tried %.1f s after a run acquired the lock and did not finish" % (api, age_s)))
                    continue
                err = sc.Result(p.code, p.out, p.err).err_json() or {}
                if p.code == 0 or err.get("type") != "server" or "Lock acquisition failed" not in str(err.get("message")):
                    viol.append(("two-holders", "%s tried %.1f s after a run acquired the lock (bind_timeout_ms %s), the run still working: exit %s %s" % (api, age_s, bind_ms or "default", p.code, (p.err or p.out)[:150])))
                if len(c.children) != nchildren:
                    viol.append(("loser-started-executable", "%s tried while a run has been holding the lock for %.1f s started an executable" % (api, age_s)))
                after = sc.snapshot(r.out_dir())
                if after != before:
                    diff = sorted(set(after.items()) ^ set(before.items()))[:4]
                    viol.append(("loser-modified-state", "%s tried while a run has been holding the lock for %.1f s changed <out_dir>: %s" % (api, age_s, diff)))
            for ch in mine:
                c.release(ch, 0, ["out " + b"holder\n".hex()])
            c.wait(lambda: holder.done(), 20)
            if not holder.done():
                c.kill(holder, group=True)
                c.wait(lambda: holder.done(), 5)
                viol.append(("holder-hung", "the holding run did not finish"))
            elif holder.code != 0 and not viol:
                viol.append(("holder-failed", "the holding run exited %s %s" % (holder.code, holder.err[:200])))
            return {"evaluations": 1, "nontrivial": 1, "states": [["aged-holder", str(age_s), str(bind_ms)]], "transitions": len(desc["apis"]),
                    "violations": [{"sig": sig, "detail": d, "rank": 50, "case": {"c14a": desc}} for sig, d in viol],
                    "sample": {"holder_age_s": age_s, "bind_timeout_ms": bind_ms, "apis": desc["apis"]}}
        finally:
            c.close()
    except common.EngineError as e:
        return {"engine_error": str(e)}
    except Exception:
        return {"engine_error": traceback.format_exc()[-1500:]}
    finally:
        s.cleanup()


def execute_spelling(desc):
    """The lock address left to its default (no `server` member in the configuration) and the repository named in
    different ways by the holder and the contenders: from inside it, through `-f` with a path via a symbolic link
    to it, with a `dir/..` component, from a directory reached through the link. It is one configuration file,
    hence one lock address: every contender is refused while the run holds the lock."""
    s = sc.Scratch("c14spell")
    try:
        if sc.port_listening(5917):
            return {"evaluations": 0, "nontrivial": 0, "states": [], "transitions": 0, "violations": [],
                    "sample": {"skipped": "the default lock port 5917 is in use by something else on this machine"}}
        r = sc.Repo(s, "r", TARGETS, commands={"a": {"build": "x"}, "b": {"build": "x"}})
        r.cfg.pop("server", None)   # (a `server` object must carry both members: it is left out altogether)
        r.write_cfg()
        r.commit("default lock address")
        link = os.path.join(s.dir, "link-to-repo")
        os.symlink(r.dir, link)
        elsewhere = os.path.join(s.dir, "elsewhere")
        os.makedirs(elsewhere)
        viol = []
        c = ctlmod.Controller(s)
        try:
            env = s.env(c.env())
            holder = c.spawn("holder", [common.MONORAIL, "run", "-c", "build", "-t", "a", "b", "--deps"], r.dir, env)
            c.wait(lambda: len(c.waiting()) >= 2 or holder.done(), 15)
            mine = list(c.waiting())
            if len(mine) < 2:
                if b"Lock acquisition failed" in (holder.err or b""):
                    return {"evaluations": 0, "nontrivial": 0, "states": [], "transitions": 0, "violations": [],
                            "sample": {"skipped": "the default lock port was taken by something else"}}
                raise common.EngineError("the holding run did not start its executables (exit %s %s)" % (holder.code, holder.err[:200]))
            settle_out(c, r)
            spellings = [("from inside the repository", [], r.dir),
                         ("-f through a symbolic link to the repository", ["-f", os.path.join(link, "Monorail.json")], elsewhere),
                         ("-f with a dir/.. component", ["-f", os.path.join(r.dir, "a", "..", "Monorail.json")], elsewhere),
                         ("from the repository reached through a symbolic link", [], link)]   # (-f must be absolute: no relative spelling)
            n = 0
            for label, f_arg, cwd in spellings:
                for api in desc["apis"]:
                    before = sc.snapshot(r.out_dir())
                    nchildren = len(c.children)
                    p = c.spawn("late:" + api, [common.MONORAIL] + f_arg + APIS[api], cwd, env)
                    t_end = time.time() + 10
                    while not p.done() and time.time() < t_end:
                        c.pump(0.01)
                        for ch in list(c.waiting()):
                            if ch not in mine:
                                c.release(ch, 0)
                    n += 1
                    if not p.done():
                        c.kill(p, group=True)
                        c.wait(lambda: p.done(), 5)
                        viol.append(("contender-hung", "%s invoked %s did not finish" % (api, label)))
                        continue
                    err = sc.Result(p.code, p.out, p.err).err_json() or {}
                    if p.code == 0 or err.get("type") != "server" or "Lock acquisition failed" not in str(err.get("message")):
                        viol.append(("two-holders", "a run (started inside the repository, default lock address) holds the lock; %s invoked %s: exit %s %s" % (api, label, p.code, (p.err or p.out)[:150])))
                    if len(c.children) != nchildren:
                        viol.append(("loser-started-executable", "%s invoked %s started an executable while a run holds the lock" % (api, label)))
                    after = sc.snapshot(r.out_dir())
                    if after != before:
                        diff = sorted(set(after.items()) ^ set(before.items()))[:4]
                        viol.append(("loser-modified-state", "%s invoked %s changed <out_dir> while a run holds the lock: %s" % (api, label, diff)))
            for ch in mine:
                c.release(ch, 0)
            c.wait(lambda: holder.done(), 20)
            if not holder.done():
                c.kill(holder, group=True)
                c.wait(lambda: holder.done(), 5)
            return {"evaluations": 1, "nontrivial": 1, "states": [["default-address", str(n)]], "transitions": n,
                    "violations": [{"sig": sig, "detail": d, "rank": 55, "case": {"c14s": desc}} for sig, d in viol[:6]],
                    "sample": {"default_lock_address": True, "spellings": len(spellings), "apis": desc["apis"]}}
        finally:
            c.close()
    except common.EngineError as e:
        return {"engine_error": str(e)}
    except Exception:
        return {"engine_error": traceback.format_exc()[-1500:]}
    finally:
        s.cleanup()


def execute_stalled(desc):
    """A `run` that prints its diagnostics (-v) into a pipe nobody reads at the moment stalls in the middle of
    what it is doing: at whichever diagnostic line no longer fits into the `free` bytes the pipe has left. While
    it is stalled a second run of the same repository is started; then the pipe is drained. Wherever the first
    one was stalled - before, inside or after lock acquisition - the executables of the two never exist at the
    same time, and whoever did not get the lock ends with a lock error."""
    import fcntl
    import subprocess
    import threading
    free = desc["free"]
    s = sc.Scratch("c14stall")
    try:
        r = sc.Repo(s, "r", TARGETS, commands={"a": {"build": "x"}, "b": {"test": "x"}}, init_git=False)
        viol = []
        c = ctlmod.Controller(s)
        try:
            env = s.env(c.env())
            rfd, wfd = os.pipe()
            fcntl.fcntl(wfd, 1031, 4096)    # F_SETPIPE_SZ: one page
            cap = fcntl.fcntl(wfd, 1032)    # F_GETPIPE_SZ
            fl = fcntl.fcntl(wfd, fcntl.F_GETFL)
            fcntl.fcntl(wfd, fcntl.F_SETFL, fl | os.O_NONBLOCK)
            os.write(wfd, b"#" * max(0, cap - free))
            fcntl.fcntl(wfd, fcntl.F_SETFL, fl)
            errf = open(os.path.join(s.dir, "A.err"), "wb")
            A = subprocess.Popen([common.MONORAIL, desc.get("verbosity", "-v"), "run", "-c", "build", "-t", "a"], cwd=r.dir, env=env,
                                 stdout=wfd, stderr=errf, stdin=subprocess.DEVNULL, start_new_session=True)
            s.popens.append(A)
            os.close(wfd)

            def kinds():
                return sorted(os.path.basename(ch.argv[0]).split(".")[0] for ch in c.waiting())
            c.wait(lambda: len(c.waiting()) > 0 or A.poll() is not None, 1.0)
            a_first = "build" in kinds()
            B = c.spawn("B", [common.MONORAIL, "run", "-c", "test", "-t", "b"], r.dir, env)
            c.wait(lambda: B.done() or "test" in kinds(), 8)
            drained = []

            def drain():
                while True:
                    try:
                        d = os.read(rfd, 65536)
                    except OSError:
                        break
                    if not d:
                        break
                    drained.append(d)
            th = threading.Thread(target=drain, daemon=True)
            th.start()
            c.wait(lambda: (A.poll() is not None or "build" in kinds()) and (B.done() or "test" in kinds()), 10)
            k = kinds()
            a_out = b"".join(drained)
            stalled_at = "nowhere (everything fitted)" if a_first else "a diagnostic line after %d free bytes" % free
            if "build" in k and "test" in k:
                viol.append(("two-holders", "the first run (-v, stalled at %s) and the second run both have an executable running: %s" % (stalled_at, k)))
            elif "build" in k:
                err = sc.Result(B.code, B.out, B.err).err_json() or {}
                if not B.done() or B.code == 0 or "Lock acquisition failed" not in str(err.get("message")):
                    viol.append(("loser-not-a-lock-error", "the first run holds the lock (stalled at %s) but the second ended with exit %s %s" % (stalled_at, B.code, B.err[:150])))
            elif "test" in k:
                c.wait(lambda: A.poll() is not None, 5)
                errf.flush()
                a_err = open(os.path.join(s.dir, "A.err"), "rb").read()
                if A.poll() in (None, 0) or b"Lock acquisition failed" not in a_err:
                    viol.append(("loser-not-a-lock-error", "the second run holds the lock (the first was stalled at %s) but the first ended with exit %s %s" % (stalled_at, A.poll(), a_err[:150])))
            else:
                viol.append(("free-lock-not-acquired", "neither run started its executable: first exit %s, second exit %s %s" % (A.poll(), B.code, B.err[:150])))
            for ch in list(c.waiting()):
                c.release(ch, 0)
            t_end = time.time() + 10
            while time.time() < t_end and (A.poll() is None or not B.done()):
                c.pump(0.02)
                for ch in list(c.waiting()):
                    c.release(ch, 0)
            try:
                os.close(rfd)
            except OSError:
                pass
            return {"evaluations": 1, "nontrivial": 0 if a_first else 1, "states": [["stalled", str(free), "first" if "build" in k else "second"]], "transitions": 2,
                    "violations": [{"sig": sig, "detail": d, "rank": 45, "case": {"c14b": desc}} for sig, d in viol],
                    "sample": {"free_bytes": free, "holder": "first" if "build" in k else "second" if "test" in k else None, "first_run_stdout_bytes": len(a_out)}}
        finally:
            c.close()
    except common.EngineError as e:
        return {"engine_error": str(e)}
    except Exception:
        return {"engine_error": traceback.format_exc()[-1500:]}
    finally:
        s.cleanup()


def _exec_any(desc):
    if "free" in desc:
        return execute_stalled(desc)
    if "spelling" in desc:
        return execute_spelling(desc)
    if "age_s" in desc:
        return execute_aged(desc)
    if "dirs" in desc:
        return execute_exit_tail(desc)
    if "delay_ms" in desc:
        return execute_slow_resolver(desc)
    if "ports" in desc:
        return execute_ports(desc)
    return execute_nested(desc) if "nested" in desc else execute(desc)


def scenarios(tier):
    out = []
    names = list(APIS)
    n = 2
    for combo in itertools.combinations_with_replacement(names, n):
        for perm in sorted(set(itertools.permutations(combo))):
            for path in enumerate_paths(n):
                out.append({"apis": list(perm), "path": path})
    if tier == "thorough":
        paths3 = enumerate_paths(3)
        for combo in itertools.combinations_with_replacement(names, 3):
            for path in paths3:
                out.append({"apis": list(combo), "path": path})
    for kind in ("child-of-holder", "orphan-of-killed-holder"):
        for api in names:
            out.append({"nested": kind, "api": api})
    for api in names:
        out.append({"api": api, "delay_ms": 700, "timeout_ms": 200})
    for api in ("checkpoint_update", "checkpoint_delete"):
        out.append({"api": api, "dirs": 20000 if tier == "quick" else 60000})
    for free in (range(0, 720, 48) if tier == "quick" else range(0, 1000, 16)):
        out.append({"free": free})
    if tier != "quick":
        for free in range(0, 2400, 40):
            out.append({"free": free, "verbosity": "-vv"})
    out.append({"spelling": True, "apis": ["checkpoint_update", "run"] if tier == "quick" else names})
    out.append({"age_s": 1.6, "apis": names})
    out.append({"age_s": 0.2, "poke": 30, "apis": names})
    out.append({"age_s": 0.9, "bind_ms": 300, "apis": names})
    if tier != "quick":
        out.append({"age_s": 3.5, "apis": names})
        out.append({"age_s": 0.4, "bind_ms": 100, "apis": list(reversed(names))})
    out.append({"ports": [65535, 65536, 70000, 131072], "apis": ["checkpoint_update", "out_delete"] if tier == "quick" else names})
    return out


def run(prop, tier):
    descs = scenarios(tier)
    results = common.pmap(_exec_any, descs)
    errs = [r["engine_error"] for r in results if "engine_error" in r]
    if errs:
        raise common.EngineError("; ".join(errs[:2]))
    states = set()
    for r, d in zip(results, descs):
        for st in r["states"]:
            states.add((tuple(d.get("apis", ["nested"])), tuple(st)))
    agg = {"states": len(states), "transitions": sum(r["transitions"] for r in results),
           "traces_validated_against_impl": len(results), "evaluations": len(results),
           "distinct_nontrivial": sum(r["nontrivial"] for r in results),
           "violations": [v for r in results for v in r["violations"]],
           "samples": [r["sample"] for r in results[:: max(1, len(results) // 5)]][:6], "exhaustive": True,
           "rule": "contenders: every ordered pair (thorough: plus every multiset of 3) over {run, checkpoint update, checkpoint delete, out delete --all}, all started and held at lock.pre; every maximal sequence of {attempt i, finish holder, kill holder (SIGKILL)}, plus for pairs an attempt that is still in progress (2 s, bind timeout raised to 6 s) when the holder finishes or is killed; plus contenders that descend from a holder (a command executable of the holding run, or the orphaned executable of a SIGKILLed run while another run holds, starts each of the four APIs with the environment monorail gave it); plus back-to-back contenders during the exit tail of a run that reuses a slot holding tens of thousands of directories; plus contenders for which the name service of the lock host answers slower than bind_timeout_ms (LD_PRELOAD shim around getaddrinfo) while a run holds the lock; plus every API tried after thirty connections by a third party to the lock address of a holding run (closed at once, reset, sending bytes); plus every API tried after a run has been holding the lock for longer than bind_timeout_ms (default and configured short) and is still working; plus a first run with -v whose diagnostics go into a pipe with only n free bytes (n swept in steps over everything it prints before its executable starts), so that it stalls at each of its diagnostic lines in turn while a second run is started; plus a configuration without server.lock (default address) with the holder and the contenders naming the repository in four different ways (from inside, -f through a symbolic link, -f with a dir/.. component, from a linked directory); plus lock ports at and beyond the end of the valid range (65535, 65536, 70000, 131072) shared by a holding run and a contender; each sequence executed from scratch on real processes against a repository with a checkpoint and a completed run; invariants: never two contenders past lock acquisition; an attempt while somebody holds exits non-zero with a server lock error, starts no executable and leaves <out_dir> byte-identical (also compared with its state before any contender was started, as long as no holder has worked); an attempt while nobody holds (initially, after exit, after SIGKILL) acquires at once; states = (contender statuses, holder) per contender tuple"}
    by = {}
    for v in agg["violations"]:
        by[v["sig"]] = by.get(v["sig"], 0) + 1
    agg["by_sig"] = by
    agg["violation_count"] = len(agg["violations"])
    agg["violations"] = sorted(agg["violations"], key=lambda v: v["rank"])[:100]
    return agg, ["the interval between lock.pre and the bind, and between the bind and lock.post, is not subdivided further",
                 "start-time offsets are modelled by the order of attempts; all contenders are started before the first attempt"]


def replay(prop, path):
    body = json.load(open(path))
    r = _exec_any(body["case"].get("c14b") or body["case"].get("c14s") or body["case"].get("c14a") or body["case"].get("c14t") or body["case"].get("c14r") or body["case"].get("c14p") or body["case"].get("c14n") or body["case"]["c14"])
    if "engine_error" in r:
        print("ENGINE:", r["engine_error"])
        return 2
    if r["violations"]:
        for v in r["violations"]:
            print("REPLAY property=%s still violates: [%s] %s" % (prop, v["sig"], v["detail"][:300]))
        print("VIOLATION property=%s replay=%s" % (prop, path))
        return 1
    print("REPLAY property=%s: case passes on the current tree" % prop)
    return 0
