"""C15 (log streaming never affects the outcome of a run) and C20 (what `log tail` prints
reassembles to each task's log, within its filters). Real `monorail log tail` + real `monorail
run` with controlled children; the listener is killed at logical positions of the run."""
import itertools
import json
import multiprocessing
import os
import re
import signal
import socket
import time
import traceback

import common
import ctl as ctlmod
import scratch as sc
import p_hist

GAP = 0.75  # seconds between bursts: longer than the 500 ms flush period
# block headers are coloured, the one-off stream header printed at connect time is not
HEADER = re.compile(rb"^\[monorail \| \x1b\[[0-9;]*m(stdout\.zst|stderr\.zst)\x1b\[0m \| (.*?) \| (.*?)\]$")
STREAM_HDR = re.compile(rb"^\[monorail \| [a-z., ]+ \| .*? \| .*?\]$")


def port_listening(port):
    return sc.port_listening(port)


LONG = {}


def burst(stream, t, c, k, long_line=0, style=None):
    b = ("%s of %s:%s burst %d line 1\n%s of %s:%s burst %d line 2\n" % (stream, c, t, k, stream, c, t, k)).encode()
    if style == "crlf":
        b = b.replace(b"\n", b"\r\n")
    elif style == "odd-text":
        # still newline-terminated text: empty lines, leading/trailing blanks, tabs, a lone CR, non-ASCII
        b = b + b"\n\n  indented \t tabbed  \n" + "caf\u00e9 \u2713 \U0001F680\n".encode() + b"progress 10%\rprogress 100%\n" + b"[monorail | looks like a header | x | y]\n"
    elif style == "ansi":
        # coloured output (still newline-terminated text): a colour closed on the same line, bold switched on
        # and reset only in the next burst (or never), a cursor movement, a 256-colour sequence left open
        b = (b"\x1b[0m" if k else b"") + b"\x1b[32mok\x1b[0m " + b + b"\x1b[2K\x1b[1A" + b"\x1b[1;31m" + ("%s of %s:%s burst %d FAILED\n" % (stream, c, t, k)).encode() + \
            (b"\x1b[38;5;208mstill orange\n" if k % 2 == 0 else b"")
    if long_line:
        # short line, then a line of `long_line` bytes, then a short line - all in one flush block
        mid = (("%s-%s-%s-%d-" % (stream[:3], c, t, k)).encode() * (long_line // 10 + 1))[:long_line - 1] + b"\n"
        b = b + mid + ("%s of %s:%s burst %d after the long line\n" % (stream, c, t, k)).encode()
    return b


def stored_logs(r, doc):
    """{(file, target, command): bytes} of every stored log of the run described by doc."""
    out = {}
    run_path = doc["out"]["run"]["path"]
    for cr in doc["results"]:
        for g in cr["target_groups"]:
            for t in g:
                h = doc["out"]["run"]["targets"][t]
                for f in ("stdout.zst", "stderr.zst"):
                    p = os.path.join(run_path, cr["command"], h, f)
                    if os.path.exists(p):
                        try:
                            out[(f, t, cr["command"])] = sc.zstd_cat(p)
                        except Exception as e:
                            out[(f, t, cr["command"])] = ("<undecodable %s>" % e).encode()
    return out


def statuses(doc):
    return {(cr["command"], t): (v.get("status"), v.get("code")) for cr in doc["results"] for g in cr["target_groups"] for t, v in g.items()}


class Listener:
    def __init__(self, c, r, s, flags, verbosity=None):
        self.c = c
        argv_, cwd_ = r.cmdline("log", "tail", *flags)
        if verbosity:
            argv_ = argv_[:1] + [verbosity] + argv_[1:]   # global flag: the listener's own diagnostics
        self.p = c.spawn("tail", argv_, cwd_, s.env())
        ok = c.wait(lambda: port_listening(r.log_port) or self.p.done(), 10)
        if not ok or self.p.done():
            raise common.EngineError("log tail did not start: %s %s" % (self.p.code, self.p.err[:200]))

    def lines(self):
        return self.p.out.split(b"\n")

    def kill(self, sig=signal.SIGKILL):
        self.c.kill(self.p, sig)
        self.c.wait(lambda: self.p.done(), 10)


# ------------------------------------------------------------------------------------------ C15

TARGETS15 = [{"path": "a"}, {"path": "b"}, {"path": "c", "uses": ["a", "b"]}]
# the same plan with long target paths made of 2- and 3-byte characters behind ASCII prefixes of
# different lengths: whatever fixed byte offset (from the start or from the end) some code cuts a path at,
# it falls inside a character of at least one of them
LONG_A = "a-" + "\u00e9\u20ac" * 13
LONG_B = "bb-" + "\u00e9\u20ac" * 13 + "x"
TARGETS15_LONG = [{"path": LONG_A}, {"path": LONG_B}, {"path": "c", "uses": [LONG_A, LONG_B]}]
FATES = ["never", "before_run", "during_handshake", "after_connect", "mid_output", "between_groups", "after_last_burst"]


def c15_run(desc):
    """One scenario; returns observation dict (statuses, failed, exit, logs) + engine notes."""
    s = sc.Scratch("c15")
    try:
        T15 = TARGETS15_LONG if desc.get("names") == "long" else TARGETS15
        r = sc.Repo(s, "r", T15, commands={t["path"]: {"build": "x", "test": "x"} for t in T15}, init_git=False)
        if desc.get("foreign"):
            r.foreign_cwd()   # listener and run are both invoked as -f <abs config> from an unrelated directory
        c = ctlmod.Controller(s)
        try:
            lis = None
            fate = desc["fate"]
            sig = signal.SIGTERM if desc.get("term") else signal.SIGKILL
            if desc["listener"] is not None:
                lis = Listener(c, r, s, desc["listener"])
                if fate == "before_run":
                    lis.kill(sig)
            if lis is not None and fate == "during_handshake":
                # the listener is suspended: the run's connection is accepted by the kernel but the
                # filter line never comes; then the listener is killed while the run is waiting for it
                os.kill(lis.p.p.pid, signal.SIGSTOP)
            cmds15 = ["build", "test"] if desc.get("ncmd") == 2 else ["build"]
            argv_, cwd_ = r.cmdline("run", "-c", *(cmds15 + ["-t"] + [t["path"] for t in T15] + ["--deps"]))
            if desc.get("pattern") in ("-v", "-vv", "-vvv"):
                argv_ = argv_[:1] + [desc["pattern"]] + argv_[1:]   # the run prints its own diagnostics, up to trace level
            p = c.spawn("run", argv_, cwd_, s.env(c.env()))
            killed = fate == "before_run"
            if lis is not None and fate == "during_handshake":
                c.wait(lambda: len(c.waiting()) > 0 or p.done(), 1.0)   # nobody arrives while the handshake hangs
                lis.kill(signal.SIGKILL)
                killed = True

            def kill_now():
                nonlocal killed
                if lis is not None and not killed:
                    lis.kill(sig)
                    killed = True

            def say(ch, k):
                cmd, t = os.path.basename(ch.argv[0]).split(".")[0], os.path.relpath(ch.cwd, r.dir)
                # the first burst is preceded by the environment the executable was started with
                c.send(ch, (["outenv"] if k == 0 else []) + ["out " + burst("stdout", t, cmd, k).hex(), "err " + burst("stderr", t, cmd, k).hex()])
                c.wait_acks(ch, 10)

            def pause():
                c.wait(lambda: False, GAP)

            # group 1: a and b
            c.wait(lambda: len(c.waiting()) >= 2 or p.done(), 15)
            g1 = sorted(c.waiting(), key=lambda ch: ch.cwd)
            if len(g1) < 2:
                return {"engine_note": "group 1 did not arrive", "exit": p.code, "stderr": p.err[:300].decode(errors="replace")}
            if fate == "after_connect":
                if lis is not None:
                    c.wait(lambda: lis.p.out.count(b"\n") >= 1, 5)
                kill_now()
            if desc.get("pattern") == "sibling-fails":
                # b writes, a flush period passes, b writes again on both streams, and right after that a
                # exits 1 while b is still running: b is cancelled with output that no periodic flush
                # has handled yet
                a_ch, b_ch = g1[0], g1[1]
                say(b_ch, 0)
                pause()
                say(b_ch, 1)
                c.wait(lambda: False, 0.08)
                c.release(a_ch, 1)
                c.wait(lambda: p.done(), 20)
                hung = not p.done()
                if hung:
                    c.kill(p, group=True)
                    c.wait(lambda: p.done(), 5)
                for ch in list(c.waiting()):
                    c.release(ch, 0)
                c.settle(0.1, 1.0)
                res = sc.Result(p.code, p.out, p.err)
                doc = res.json()
                st = None if doc is None else {"%s:%s" % k: list(v) for k, v in statuses(doc).items()}
                return {"exit": p.code, "hung": hung, "orphans": 0, "stderr": p.err[:300].decode(errors="replace"),
                        "failed": None if doc is None else doc.get("failed"), "statuses": st,
                        "logs": None if doc is None else {"%s|%s|%s" % k: re.sub(r"/mrv-[^/:\n]+", "/mrv-X", v.decode(errors="replace")) for k, v in stored_logs(r, doc).items()},
                        "listener_saw": None if lis is None else len(lis.p.out)}
            nb = 0
            for ch in g1:
                say(ch, nb)
            pause()
            if fate == "mid_output":
                if lis is not None:
                    c.wait(lambda: b"burst 0" in lis.p.out, 5)
                kill_now()
                if lis is not None and desc.get("pattern") == "restart-big":
                    # the listener is started again at once, with the same filters, on the same address
                    lis = Listener(c, r, s, desc["listener"])
            for k in (1, 2):
                for ch in g1:
                    if desc.get("pattern") == "restart-big":
                        # far more than a pipe buffer on both streams of both executables
                        t_ = os.path.relpath(ch.cwd, r.dir)
                        c.send(ch, ["outrep 3000 " + ("big stdout of %s burst %d ........................\n" % (t_, k)).encode().hex(),
                                    "errrep 3000 " + ("big stderr of %s burst %d ........................\n" % (t_, k)).encode().hex()])
                        c.wait_acks(ch, 15)
                    else:
                        say(ch, k)
                pause()
            if desc.get("pattern") == "tail":
                # an unterminated last line that stays pending across a flush tick before the pipe closes
                for ch in g1:
                    t = os.path.relpath(ch.cwd, r.dir)
                    c.send(ch, ["out " + ("tail of %s without newline" % t).encode().hex(), "err " + ("err tail of %s" % t).encode().hex()])
                    c.wait_acks(ch, 10)
                pause()
            for ch in g1:
                c.release(ch, 0)
            c.wait(lambda: all(ch.state == "gone" for ch in g1) or p.done(), 10)
            if fate == "between_groups":
                kill_now()
            # group 2: c
            c.wait(lambda: len(c.waiting()) >= 1 or p.done(), 15)
            g2 = list(c.waiting())
            for k in (0, 1):
                for ch in g2:
                    say(ch, k)
                pause()
            if fate == "after_last_burst":
                kill_now()
                for k in (2, 3):
                    for ch in g2:
                        say(ch, k)
                    pause()
            for ch in g2:
                c.release(ch, 0)
            if len(cmds15) == 2:
                # the second command of the same invocation: both groups once more (whatever happened to
                # the listener happened during the first command)
                for need in (2, 1):
                    c.wait(lambda: len(c.waiting()) >= need or p.done(), 15)
                    grp = sorted(c.waiting(), key=lambda ch: ch.cwd)
                    for k in (0, 1):
                        for ch in grp:
                            say(ch, k)
                        pause()
                    for ch in grp:
                        c.release(ch, 0)
                    c.wait(lambda: all(ch.state == "gone" for ch in grp) or p.done(), 10)
            c.wait(lambda: p.done(), 20)
            hung = not p.done()
            if hung:
                c.kill(p, group=True)
                c.wait(lambda: p.done(), 5)
            c.settle(0.1, 1.0)
            orphans = [ch for ch in c.children if ch.state != "gone"]
            res = sc.Result(p.code, p.out, p.err)
            doc = res.json()
            obs = {"exit": p.code, "hung": hung, "orphans": len(orphans), "stderr": p.err[:300].decode(errors="replace"),
                   "failed": None if doc is None else doc.get("failed"),
                   "statuses": None if doc is None else {"%s:%s" % k: list(v) for k, v in statuses(doc).items()},
                   "logs": None if doc is None else {"%s|%s|%s" % k: re.sub(r"/mrv-[^/:\n]+", "/mrv-X", v.decode(errors="replace")) for k, v in stored_logs(r, doc).items()},
                   "listener_saw": None if lis is None else len(lis.p.out)}
            return obs
        finally:
            c.close()
    except common.EngineError as e:
        return {"engine_error": str(e)}
    except Exception:
        return {"engine_error": traceback.format_exc()[-1500:]}
    finally:
        s.cleanup()


def c15_second_run(desc):
    """While a run holds the lock (and streams to the listener, if there is one) a second run of the same
    repository is started: how it ends (promptly, with a lock error) must not depend on the listener."""
    s = sc.Scratch("c15b")
    try:
        r = sc.Repo(s, "r", TARGETS15, commands={t["path"]: {"build": "x"} for t in TARGETS15}, init_git=False)
        c = ctlmod.Controller(s)
        try:
            lis = Listener(c, r, s, desc["listener"]) if desc["listener"] is not None else None
            p = c.spawn("run", [common.MONORAIL, "run", "-c", "build", "-t", "a", "b", "c", "--deps"], r.dir, s.env(c.env()))
            c.wait(lambda: len(c.waiting()) >= 2 or p.done(), 15)
            if p.done():
                return {"engine_error": "first run ended early: %s %s" % (p.code, p.err[:200])}
            t0 = time.time()
            second = r.mr("run", "-c", "build", "-t", "a", timeout=8)
            took = time.time() - t0
            t_end = time.time() + 20
            while not p.done() and time.time() < t_end:
                c.pump(0.01)
                for ch in list(c.waiting()):
                    c.release(ch, 0)
            ej = second.err_json() or {}
            return {"exit": second.code, "hung": second.code == -999, "orphans": 0, "stderr": second.err[:200].decode(errors="replace"),
                    "failed": ej.get("type"), "statuses": {"second-run": ["timeout" if second.code == -999 else "ended", round(min(took, 8.0) > 5)]},
                    "logs": {}, "listener_saw": None if lis is None else len(lis.p.out), "first_exit": p.code}
        finally:
            c.close()
    except common.EngineError as e:
        return {"engine_error": str(e)}
    except Exception:
        return {"engine_error": traceback.format_exc()[-1500:]}
    finally:
        s.cleanup()


def c15_scenarios(tier):
    out = [{"listener": None, "fate": f} for f in FATES]  # one listener-absent baseline per burst pattern
    out += [{"listener": None, "fate": f, "pattern": "tail"} for f in ("never", "mid_output")]
    for cfg in (["--stdout", "--stderr"], ["--stderr"], ["--stdout", "-t", "a"]):
        for f in ("never", "mid_output"):
            out.append({"listener": cfg, "fate": f, "pattern": "tail"})
    configs = []
    for streams in (["--stdout"], ["--stderr"], ["--stdout", "--stderr"]):
        for tf in ([], ["-t", "a"], ["-t", "c"]):
            for cf in ([], ["-c", "build"]):
                configs.append(streams + tf + cf)
    if tier == "quick":
        configs = [configs[0], configs[7], configs[12], configs[17]]
    for cfg in configs:
        for fate in FATES:
            out.append({"listener": cfg, "fate": fate})
    # filters naming things the run does not know (a trailing slash left by completion, a typo, a directory
    # inside a target, a command nobody defines): the listener sees nothing of them, the run is unaffected
    for cfg in (["--stdout", "--stderr", "-t", "a/"], ["--stdout", "-t", "a", "nosuch"], ["--stderr", "-t", "a/sub"], ["--stdout", "--stderr", "-c", "nosuch"], ["--stdout", "-t", "nosuch", "-c", "build"]):
        for fate in ("never", "mid_output"):
            out.append({"listener": cfg, "fate": fate})
    # the listener is killed in the middle of the output and a new one with the same filters is started at once on the
    # same address; afterwards both executables write far more than a pipe buffer on both streams
    out.append({"listener": None, "fate": "mid_output", "pattern": "restart-big"})
    for cfg in (["--stdout", "--stderr"], ["--stdout", "--stderr", "-t", "a"], ["--stderr"]):
        out.append({"listener": cfg, "fate": "mid_output", "pattern": "restart-big"})
    # the run itself at every verbosity (the listener stays as it is)
    for vb in ("-v", "-vv", "-vvv"):
        out.append({"listener": None, "fate": "never", "pattern": vb})
        for cfg in (["--stdout", "--stderr"], ["--stderr", "-t", "a"]):
            out.append({"listener": cfg, "fate": "never", "pattern": vb})
        out.append({"listener": None, "fate": "mid_output", "pattern": vb})
        out.append({"listener": ["--stdout", "--stderr"], "fate": "mid_output", "pattern": vb})
    # clean SIGTERM variant
    for fate in FATES[1:]:
        out.append({"listener": ["--stdout", "--stderr"], "fate": fate, "term": True})
    # a second run of the same repository started while the first one holds the lock
    out.append({"listener": None, "fate": "never", "pattern": "second-run"})
    for cfg in (["--stdout", "--stderr"], ["--stderr", "-t", "c"]):
        out.append({"listener": cfg, "fate": "never", "pattern": "second-run"})
    # two commands in one invocation; the listener's fate is met during the first one
    for f in FATES:
        out.append({"listener": None, "fate": f, "ncmd": 2})
        for cfg in ([["--stdout", "--stderr"]] if tier == "quick" else [["--stdout", "--stderr"], ["--stderr", "-c", "test"], ["--stdout", "-t", "a"]]):
            out.append({"listener": cfg, "fate": f, "ncmd": 2})
    # listener and run invoked as -f <abs config> from an unrelated directory
    out.append({"listener": None, "fate": "never", "foreign": True})
    out.append({"listener": None, "fate": "mid_output", "foreign": True})
    for cfg in (["--stdout", "--stderr"], ["--stderr", "-t", "a"]):
        for f in ("never", "mid_output"):
            out.append({"listener": cfg, "fate": f, "foreign": True})
    # a member of the first group fails while its sibling is still running and has output pending
    out.append({"listener": None, "fate": "never", "pattern": "sibling-fails"})
    for cfg in (["--stdout", "--stderr"], ["--stderr"], ["--stdout", "-t", "a"]):
        for rep in range(2):
            out.append({"listener": cfg, "fate": "never", "pattern": "sibling-fails", "rep": rep})
    # long multi-byte target paths
    for fate in ("never", "mid_output"):
        out.append({"listener": None, "fate": fate, "names": "long"})
        for cfg in (["--stdout", "--stderr"], ["--stdout", "-t", LONG_A], ["--stderr", "-t", LONG_B]):
            out.append({"listener": cfg, "fate": fate, "names": "long"})
    return out


def c15_compare(desc, obs, base):
    v = []
    if "engine_note" in obs and "engine_note" not in base:
        v.append(("run-did-not-start-group", "with listener %s fate %s: %s (exit %s, %s)" % (desc["listener"], desc["fate"], obs["engine_note"], obs.get("exit"), obs.get("stderr"))))
        return v
    if obs.get("hung"):
        v.append(("run-hung", "listener %s fate %s: run did not exit" % (desc["listener"], desc["fate"])))
    for k in ("exit", "failed", "statuses"):
        if obs.get(k) != base.get(k):
            v.append(("outcome-differs:" + k, "listener %s fate %s: %s = %s, without listener %s (stderr %s)" % (desc["listener"], desc["fate"], k, obs.get(k), base.get(k), obs.get("stderr"))))
    if obs.get("logs") != base.get("logs"):
        diff = [k for k in set(obs.get("logs") or {}) | set(base.get("logs") or {}) if (obs.get("logs") or {}).get(k) != (base.get("logs") or {}).get(k)]
        v.append(("stored-logs-differ", "listener %s fate %s: stored logs differ for %s" % (desc["listener"], desc["fate"], diff[:4])))
    if obs.get("orphans"):
        v.append(("child-left-running", "listener %s fate %s: %d child(ren) still running after monorail exited" % (desc["listener"], desc["fate"], obs["orphans"])))
    return v


# ------------------------------------------------------------------------------------------ C20

B20 = "b-" + "\u00e9\u20ac" * 10   # a 52-byte target name made of 2- and 3-byte characters
TARGETS20 = [{"path": "a"}, {"path": B20}]


def parse_tail(out, multi=False):
    """listener stdout -> (stream header lines, blocks [(file, target, command, body)], junk lines)"""
    lines = out.split(b"\n")
    if lines and lines[-1] == b"":
        lines = lines[:-1]
    hdrs, blocks, junk = [], [], []
    cur = None
    for ln in lines:
        m = HEADER.match(ln)
        if m:
            cur = [m.group(1).decode(), m.group(2).decode(), m.group(3).decode(), b""]
            blocks.append(cur)
        elif STREAM_HDR.match(ln) and (cur is None or multi):
            # multi: several runs connect to this listener one after the other; each connection's
            # stream header ends whatever block came before it
            hdrs.append(ln)
            cur = None
        elif cur is not None:
            cur[3] += ln + b"\n"
        elif hdrs:
            junk.append(ln)
        # (what a listener prints before its stream header - e.g. its own diagnostics with -v - is not
        # covered by the statement)
    return hdrs, blocks, junk


def c20_run(desc):
    s = sc.Scratch("c20")
    try:
        cmds = ["build", "test"]
        T20 = [{"path": LONG_A}, {"path": LONG_B}] if desc.get("names") == "long" else \
            [{"path": ".ci"}, {"path": "ci"}] if desc.get("names") == "dot" else \
            [{"path": "my,target"}, {"path": "x."}] if desc.get("names") == "odd" else TARGETS20
        if desc.get("defs"):
            # commands mapped through commands.definitions to files whose names say nothing about the command
            # (a shared tools directory): headers and filters still speak of the command
            fname = {"build": "compile.sh", "test": "check-all.sh"}
            T20 = [dict(t, commands={"definitions": {c_: {"path": "tools/%d/%s" % (i_, fname[c_])} for c_ in cmds}}) for i_, t in enumerate(T20)]
            r = sc.Repo(s, "r", T20, commands={}, init_git=False)
            for i_, t in enumerate(T20):
                for c_ in cmds:
                    r.command_file(t["path"], c_, "x", cmd_dir="tools/%d" % i_, name=fname[c_])
        else:
            r = sc.Repo(s, "r", T20, commands={t["path"]: {c: "x" for c in cmds} for t in T20}, init_git=False)
        if desc.get("foreign"):
            r.foreign_cwd()
        c = ctlmod.Controller(s)
        try:
            flags = list(desc["streams"])
            if desc["targets"]:
                # many_unknown: the filter also names thousands of things that are no targets (a generated list)
                flags += ["-t"] + desc["targets"] + ["no-such-target-%05d-padding-padding" % i for i in range(desc.get("many_unknown", 0))]
            if desc["commands"]:
                flags += ["-c"] + desc["commands"]
            lis = Listener(c, r, s, flags, desc.get("verbosity"))
            hold = desc.get("hold")
            mid_held = []
            overlap = []
            points = ["stream."] if hold else None

            def on_hit(h):
                # hold the first task that reaches stream.mid (header written, mutex held) until
                # another task is provably contending (hit stream.pre after it), plus a grace period
                if h.name.startswith("stream.mid"):
                    others = [x for x in mid_held if x.state == "held"]
                    if others:
                        overlap.append((others[0].name, h.name))
                    if not mid_held:
                        mid_held.append(h)
                        h.t_held = time.time()
                        return None
                return b"c"
            def release_rule():
                if mid_held and mid_held[0].state == "held":
                    h = mid_held[0]
                    contenders = [x for x in c.hits if x.name.startswith("stream.pre") and x.seq > h.seq]
                    grace = desc.get("hold_s", 0.3)
                    if (contenders and time.time() - h.t_held > grace) or time.time() - h.t_held > grace + 1.2:
                        h.contended = bool(contenders)
                        c.resume(h)
            if hold:
                c.auto_points = on_hit
                c.tick_hook = release_rule
            env = s.env(c.env(points=points))
            argv_, cwd_ = r.cmdline("run", "-c", *(cmds + ["-t"] + [t["path"] for t in T20] + ["--deps"]))
            p = c.spawn("run", argv_, cwd_, env)
            viol = []
            nbursts = 2 if desc.get("short") else 3
            for cmd in cmds:
                c.wait(lambda: len(c.waiting()) >= 2 or p.done(), 15)
                grp = sorted(c.waiting(), key=lambda ch: ch.cwd)
                if len(grp) < 2:
                    break
                for k in range(nbursts):
                    if desc.get("split"):
                        # progress-style output: the first part of a line, a pause longer than the
                        # flush period, then the rest of the line (still newline-terminated text)
                        for ch in grp:
                            t = os.path.relpath(ch.cwd, r.dir)
                            bo, be = burst("stdout", t, cmd, k), burst("stderr", t, cmd, k)
                            c.send(ch, ["out " + bo[:9].hex(), "err " + be[:11].hex()])
                            c.wait_acks(ch, 10)
                        c.wait(lambda: False, GAP)
                        for ch in grp:
                            t = os.path.relpath(ch.cwd, r.dir)
                            bo, be = burst("stdout", t, cmd, k), burst("stderr", t, cmd, k)
                            c.send(ch, ["out " + bo[9:].hex(), "err " + be[11:].hex()])
                            c.wait_acks(ch, 10)
                        c.wait(lambda: False, GAP)
                        continue
                    for ch in grp:
                        t = os.path.relpath(ch.cwd, r.dir)
                        ll = desc.get("long_line", 0)
                        st = desc.get("style")
                        c.send(ch, ["out " + burst("stdout", t, cmd, k, ll, st).hex(), "err " + burst("stderr", t, cmd, k, ll, st).hex()])
                        c.wait_acks(ch, 10)
                    c.wait(lambda: False, GAP)
                    if desc.get("quiet_s") and cmd == cmds[0] and k == 0:
                        # nobody writes anything for a long while (a compiler thinking, a test sleeping)
                        c.wait(lambda: p.done(), desc["quiet_s"])
                if desc.get("sibling_fails") and cmd == cmds[-1]:
                    # the second member writes once more on both streams and, before any periodic flush,
                    # the first member exits 1: the sibling is cancelled with output pending
                    ch = grp[1]
                    t = os.path.relpath(ch.cwd, r.dir)
                    c.send(ch, ["out " + burst("stdout", t, cmd, 9).hex(), "err " + burst("stderr", t, cmd, 9).hex()])
                    c.wait_acks(ch, 10)
                    c.wait(lambda: False, 0.08)
                    c.release(grp[0], 1)
                    c.wait(lambda: p.done(), 15)
                    for ch2 in list(c.waiting()):
                        c.release(ch2, 0)
                    break
                for ch in grp:
                    c.release(ch, 0)
                c.wait(lambda: all(ch.state == "gone" for ch in grp) or p.done(), 10)
            c.wait(lambda: p.done(), 20)
            if mid_held and mid_held[0].state == "held":
                c.resume(mid_held[0])
            if not p.done():
                c.kill(p, group=True)
                c.wait(lambda: p.done(), 5)
                viol.append(("run-hung", "run did not exit"))
            c.settle(0.2, 2.0)
            doc = sc.Result(p.code, p.out, p.err).json()
            if doc is None or p.code != (1 if desc.get("sibling_fails") else 0):
                return {"blocked": "run failed: exit %s %s" % (p.code, p.err[:200])}
            stored = stored_logs(r, doc)

            def admitted_keys():
                adm = set()
                for (f, t, cmd) in stored:
                    ok_stream = ("--stdout" in desc["streams"] and f == "stdout.zst") or ("--stderr" in desc["streams"] and f == "stderr.zst")
                    if ok_stream and (not desc["targets"] or t in desc["targets"]) and (not desc["commands"] or cmd in desc["commands"]):
                        adm.add((f, t, cmd))
                return adm

            def caught_up():
                # the listener prints asynchronously: give it time until everything admitted has arrived
                _, blks, _ = parse_tail(lis.p.out)
                per_ = {}
                for f, t, cmd, body in blks:
                    per_[(f, t, cmd)] = per_.get((f, t, cmd), b"") + body
                return all(len(per_.get(k, b"")) >= len(stored[k]) for k in admitted_keys())
            c.wait(caught_up, 8)
            lis.kill(signal.SIGTERM)
            hdrs, blocks, junk = parse_tail(lis.p.out)
            if len(hdrs) != 1:
                viol.append(("stream-header-count", "listener printed %d stream header lines: %s" % (len(hdrs), hdrs[:3])))
            if junk:
                viol.append(("text-outside-blocks", "lines before any block header: %s" % junk[:3]))
            admitted = set()
            for (f, t, cmd) in stored:
                ok_stream = ("--stdout" in desc["streams"] and f == "stdout.zst") or ("--stderr" in desc["streams"] and f == "stderr.zst")
                ok_t = not desc["targets"] or t in desc["targets"]
                ok_c = not desc["commands"] or cmd in desc["commands"]
                if ok_stream and ok_t and ok_c:
                    admitted.add((f, t, cmd))
            per = {}
            for f, t, cmd, body in blocks:
                per[(f, t, cmd)] = per.get((f, t, cmd), b"") + body
            for k in per:
                if k not in admitted:
                    viol.append(("block-outside-filter", "listener %s printed a block for %s" % (flags, k)))
            for k in admitted:
                if per.get(k, b"") != stored[k]:
                    viol.append(("reassembly-differs", "key %s: streamed %r, stored %r" % (k, per.get(k, b"")[:120], stored[k][:120])))
            if overlap:
                viol.append(("stream-mutex-violated", "a second task reached stream.mid while %s was held there: %s" % overlap[0]))
            return {"evaluations": 1, "nontrivial": 1 if admitted and len(admitted) < len(stored) or hold else 0,
                    "blocks": len(blocks), "held": bool(mid_held), "contended": bool(mid_held and getattr(mid_held[0], "contended", False)),
                    "violations": [{"sig": sig, "detail": d, "rank": len(flags), "case": {"c20": desc}} for sig, d in viol],
                    "sample": {"listener": flags, "blocks": len(blocks), "admitted_keys": len(admitted), "stored_keys": len(stored)}}
        finally:
            c.close()
    except common.EngineError as e:
        return {"engine_error": str(e)}
    except Exception:
        return {"engine_error": traceback.format_exc()[-1500:]}
    finally:
        s.cleanup()


def c20_two_runs(desc):
    """Two repositories with different lock ports but the same log port: one listener, two runs alive at
    the same time. Whatever the listener does with the second connection (serve it after the first, or
    at once), every block it prints must carry lines of the task its header names only."""
    s = sc.Scratch("c20two")
    try:
        r1 = sc.Repo(s, "r1", [{"path": "a"}, {"path": B20}], commands={"a": {"build": "x"}, B20: {"build": "x"}}, init_git=False)
        r2 = sc.Repo(s, "r2", [{"path": "x"}, {"path": "y"}], commands={"x": {"build": "x"}, "y": {"build": "x"}}, init_git=False)
        r2.cfg["server"]["log"]["port"] = r1.log_port
        r2.write_cfg()
        c = ctlmod.Controller(s)
        try:
            lis = Listener(c, r1, s, ["--stdout", "--stderr"])
            env = s.env(c.env())
            p1 = c.spawn("run1", [common.MONORAIL, "run", "-c", "build", "-t", "a", B20, "--deps"], r1.dir, env)
            c.wait(lambda: len(c.waiting()) >= 2 or p1.done(), 15)
            p2 = c.spawn("run2", [common.MONORAIL, "run", "-c", "build", "-t", "x", "y", "--deps"], r2.dir, env)
            c.wait(lambda: len(c.waiting()) >= 4 or p2.done(), 1.5)   # run2 may be held in its handshake: fine
            sent = {}
            t_end = time.time() + 40
            while not (p1.done() and p2.done()) and time.time() < t_end:
                progressed = False
                for ch in sorted(c.waiting(), key=lambda ch: ch.cwd):
                    k = sent.get(ch.id, 0)
                    if k < 3:
                        t = os.path.basename(ch.cwd) if os.path.dirname(ch.cwd) in (r1.dir, r2.dir) else os.path.relpath(ch.cwd, r1.dir)
                        lines = ["out " + burst("stdout", t, "build", k).hex(), "err " + burst("stderr", t, "build", k).hex()]
                        if k == 1:
                            # a large block on each stream, so that relaying it takes the listener a while
                            lines += ["outrep 4000 " + ("stdout bulk of build:%s\n" % t).encode().hex(), "errrep 4000 " + ("stderr bulk of build:%s\n" % t).encode().hex()]
                        c.send(ch, lines)
                        c.wait_acks(ch, 10)
                        sent[ch.id] = k + 1
                        progressed = True
                    else:
                        c.release(ch, 0)
                        progressed = True
                c.wait(lambda: False, GAP if progressed else 0.1)
            viol = []
            for p_ in (p1, p2):
                if not p_.done():
                    c.kill(p_, group=True)
                    viol.append(("run-hung", "a run did not exit"))
            c.settle(0.2, 2.0)
            stored = {}
            for p_, r_ in ((p1, r1), (p2, r2)):
                doc = sc.Result(p_.code, p_.out, p_.err).json()
                if doc is None or p_.code != 0:
                    return {"blocked": "run failed: exit %s %s" % (p_.code, p_.err[:200])}
                stored.update(stored_logs(r_, doc))

            def caught_up():
                _, blks, _ = parse_tail(lis.p.out, multi=True)
                per_ = {}
                for f, t, cmd, body in blks:
                    per_[(f, t, cmd)] = per_.get((f, t, cmd), b"") + body
                return sum(len(v) for v in per_.values()) >= sum(len(stored[k]) for k in per_ if k in stored)
            c.wait(caught_up, 20)
            lis.kill(signal.SIGTERM)
            hdrs, blocks, junk = parse_tail(lis.p.out, multi=True)
            if junk:
                viol.append(("text-outside-blocks", "lines before any block header: %s" % junk[:3]))
            per = {}
            for f, t, cmd, body in blocks:
                per[(f, t, cmd)] = per.get((f, t, cmd), b"") + body
            for k, body in per.items():
                if k not in stored:
                    viol.append(("block-outside-filter", "block for %s, which is no task of either run" % (k,)))
                elif body != stored[k]:
                    viol.append(("reassembly-differs", "two runs on one listener: key %s: streamed %d bytes %r..., stored %d bytes" % (k, len(body), body[:80], len(stored[k]))))
            return {"evaluations": 1, "nontrivial": 1 if len({k[1] for k in per}) > 2 else 0, "blocks": len(blocks), "held": False, "contended": False,
                    "violations": [{"sig": sig, "detail": d, "rank": 3, "case": {"c20": desc}} for sig, d in viol],
                    "sample": {"two_runs": True, "stream_headers": len(hdrs), "blocks": len(blocks), "keys_streamed": len(per), "stored_keys": len(stored)}}
        finally:
            c.close()
    except common.EngineError as e:
        return {"engine_error": str(e)}
    except Exception:
        return {"engine_error": traceback.format_exc()[-1500:]}
    finally:
        s.cleanup()


def c20_scenarios(tier):
    out = []
    streams = [["--stdout"], ["--stderr"], ["--stdout", "--stderr"]]
    tsub = [[], ["a"], [B20], ["a", B20]]
    csub = [[], ["build"], ["test"], ["build", "test"]]
    for s_, t, c in itertools.product(streams, tsub, csub):
        out.append({"streams": s_, "targets": t, "commands": c, "short": tier == "quick"})
    # lines written in two parts with a flush tick in between (progress-style output)
    for s_, t, c in [(["--stdout", "--stderr"], [], []), (["--stdout"], ["a"], []), (["--stderr"], [], ["test"]), (["--stdout", "--stderr"], [B20], ["build"])]:
        out.append({"streams": s_, "targets": t, "commands": c, "short": True, "split": True})
    # line lengths around and beyond typical buffer sizes inside one block (short, long, short)
    for ll in ([8192, 70000] if tier == "quick" else [1000, 4095, 4096, 8191, 8192, 8193, 16384, 65536, 70000, 300000]):
        out.append({"streams": ["--stdout", "--stderr"], "targets": [], "commands": [], "short": True, "long_line": ll})
    # other kinds of newline-terminated text: CRLF line endings; blank lines, tabs, lone CR, non-ASCII,
    # and a line that merely looks like a (colourless) header
    for st in ("crlf", "odd-text", "ansi"):
        out.append({"streams": ["--stdout", "--stderr"], "targets": [], "commands": [], "short": True, "style": st})
    out.append({"streams": ["--stderr"], "targets": ["a"], "commands": [], "short": True, "style": "ansi"})
    # both targets with long paths of 2- and 3-byte characters (different ASCII prefix and suffix lengths)
    for s_, t, c in [(["--stdout", "--stderr"], [], []), (["--stdout"], [LONG_A], []), (["--stderr"], [LONG_B], ["build"])]:
        out.append({"streams": s_, "targets": t, "commands": c, "short": True, "names": "long"})
    # target names a filter value could be "normalised" into something else: a leading dot next to the
    # same name without it, a comma, a trailing dot (not a space: -t takes a space-delimited list)
    for names, tsubs in (("dot", [[".ci"], ["ci"], []]), ("odd", [["my,target"], ["x."]])):
        for tf in tsubs:
            out.append({"streams": ["--stdout", "--stderr"], "targets": tf, "commands": [], "short": True, "names": names})
    # listener and run invoked as -f <abs config> from an unrelated directory
    for s_, t, c in [(["--stdout", "--stderr"], [], []), (["--stdout"], ["a"], ["build"])]:
        out.append({"streams": s_, "targets": t, "commands": c, "short": True, "foreign": True})
    # a filter list far longer than any line buffer (about 40 KB, 150 KB; thorough 600 KB)
    for k in ([1000, 4000] if tier == "quick" else [1000, 2000, 4000, 16000]):
        out.append({"streams": ["--stdout", "--stderr"], "targets": ["a"], "commands": [], "short": True, "many_unknown": k})
    # commands mapped to files with unrelated names through commands.definitions
    for s_, t, c in [(["--stdout", "--stderr"], [], []), (["--stdout", "--stderr"], [], ["build"]), (["--stderr"], ["a"], ["test"]), (["--stdout"], [], ["compile"])]:
        out.append({"streams": s_, "targets": t, "commands": c, "short": True, "defs": True})
    # a listener that also prints its own diagnostics (-v, -vv, -vvv)
    for vb in ("-v", "-vv", "-vvv"):
        out.append({"streams": ["--stdout", "--stderr"], "targets": [], "commands": [], "short": True, "verbosity": vb})
    # two runs (different lock ports, same log port) alive on one listener at the same time
    for i in range(2 if tier == "quick" else 6):
        out.append({"two_runs": True, "rep": i, "streams": ["--stdout", "--stderr"], "targets": [], "commands": []})
    # a long silence (11 s, 31 s in thorough) between two bursts of the same healthy run
    out.append({"streams": ["--stdout", "--stderr"], "targets": [], "commands": [], "short": True, "quiet_s": 11})
    if tier != "quick":
        out.append({"streams": ["--stdout"], "targets": ["a"], "commands": [], "short": True, "quiet_s": 31})
    # filter values given twice
    out.append({"streams": ["--stdout", "--stderr"], "targets": ["a", "a"], "commands": ["build", "build"], "short": True})
    out.append({"streams": ["--stderr"], "targets": [B20, "a", B20], "commands": [], "short": True})
    # a failing member: its sibling is cancelled while it has output that no periodic flush has handled
    for s_, t, c in [(["--stdout", "--stderr"], [], []), (["--stderr"], [], ["test"]), (["--stdout"], [B20], [])]:
        out.append({"streams": s_, "targets": t, "commands": c, "short": True, "sibling_fails": True})
    # held schedules: the first task to flush is held inside the critical section
    n = 6 if tier == "quick" else 24
    for i in range(n):
        out.append({"streams": ["--stdout", "--stderr"], "targets": [], "commands": [], "hold": True, "short": True, "rep": i})
    # the same with a long stall (several flush periods): the tasks queued behind the held writer wait
    # that long for the connection and must still deliver everything
    for i in range(3 if tier == "quick" else 8):
        out.append({"streams": ["--stdout", "--stderr"], "targets": [], "commands": [], "hold": True, "hold_s": 1.7, "short": True, "rep": i})
    return out


# ------------------------------------------------------------------------------------------ driver

def _worker(task):
    kind, desc = task
    if kind == "c20" and desc.get("two_runs"):
        return c20_two_runs(desc)
    if kind == "c15" and desc.get("pattern") == "second-run":
        return c15_second_run(desc)
    return c15_run(desc) if kind == "c15" else c20_run(desc)


def run(prop, tier):
    ctx = multiprocessing.get_context("fork")
    if prop == "C15":
        descs = c15_scenarios(tier)
        results = common.pmap(_worker, [("c15", d) for d in descs])
        errs = [r["engine_error"] for r in results if "engine_error" in r]
        if errs:
            raise common.EngineError("; ".join(errs[:2]))
        bases = {(d["fate"], d.get("pattern"), d.get("names"), bool(d.get("foreign")), d.get("ncmd")): r for d, r in zip(descs, results) if d["listener"] is None}
        for f, b in bases.items():
            if f[1] == "second-run":
                if b.get("exit") in (0, -999):
                    raise common.EngineError("listener-absent baseline of the second-run pattern was not refused: %s" % json.dumps(b)[:300])
                continue
            if f[1] == "sibling-fails":
                if b.get("exit") != 1 or b.get("failed") is not True:
                    raise common.EngineError("listener-absent baseline of the failing pattern did not fail: %s" % json.dumps(b)[:400])
                continue
            if b.get("exit") != 0 or b.get("failed") is not False:
                raise common.EngineError("listener-absent baseline for burst pattern %s is not a clean success: %s" % (f, json.dumps(b)[:400]))
        viol = []
        samples = []
        nontrivial = 0
        for d, r in zip(descs, results):
            if d["listener"] is None:
                continue
            if r.get("listener_saw"):
                nontrivial += 1
            for sig, detail in c15_compare(d, r, bases[(d["fate"], d.get("pattern"), d.get("names"), bool(d.get("foreign")), d.get("ncmd"))]):
                viol.append({"sig": sig, "detail": detail, "rank": FATES.index(d["fate"]) * 10 + len(d["listener"]), "case": {"c15": d}})
            if len(samples) < 5:
                samples.append({"listener": d["listener"], "fate": d["fate"], "exit": r.get("exit"), "listener_bytes": r.get("listener_saw")})
        agg = {"evaluations": len(results), "distinct_nontrivial": nontrivial, "violations": viol, "samples": samples, "exhaustive": True,
               "rule": "plan = 2 groups (a, b then c) with controlled children producing bursts on both streams separated by %.2fs (longer than the flush period); listener in {absent} + configurations (streams x target filter x command filter; quick: 4 of 18) x fate in %s (SIGKILL; plus SIGTERM for the unfiltered listener); a second output pattern ends every stream of the first group with an unterminated line that stays pending across a flush tick; a third family gives the first group 67- and 69-byte target paths made of 2- and 3-byte characters; after a kill the children produce at least two further bursts so that at least two flushes hit the dead connection; oracle: exit status, failed flag, statuses and decoded stored logs equal the listener-absent baseline of the same burst pattern, and no child is left running; non-trivial = scenarios in which the listener actually received bytes" % (GAP, FATES)}
    else:
        descs = c20_scenarios(tier)
        results = common.pmap(_worker, [("c20", d) for d in descs])
        errs = [r["engine_error"] for r in results if "engine_error" in r]
        if errs:
            raise common.EngineError("; ".join(errs[:2]))
        blocked = [r for r in results if "blocked" in r]
        good = [r for r in results if "blocked" not in r]
        if not good:
            raise common.EngineError("every scenario was blocked: %s" % blocked[0]["blocked"])
        agg = {"evaluations": len(good), "distinct_nontrivial": sum(r["nontrivial"] for r in good),
               "states": sum(r["blocks"] for r in good) + 1, "transitions": sum(r["blocks"] for r in good) + 1,
               "traces_validated_against_impl": len(good),
               "blocked_by_run_failure": len(blocked), "held_schedules": sum(1 for r in good if r.get("held")),
               "held_schedules_with_contender": sum(1 for r in good if r.get("contended")),
               "violations": [v for r in good for v in r["violations"]], "samples": [r["sample"] for r in good[:: max(1, len(good) // 5)]][:6],
               "exhaustive": True,
               "rule": "filters: 2 targets x 2 commands x both streams with a listener for every (streams in 3) x (target subset in 4) x (command subset in 4) = 48 filter combinations, children writing newline-terminated text distinct per (stream, target, command) in bursts %.2fs apart (plus 4 scenarios in which every line is written in two parts with a flush tick in between); interleavings: the first task to reach stream.mid (header written, connection mutex held) is held there until another task has reached stream.pre behind it plus 0.3 s (a second family: plus 1.7 s, several flush periods), then released; oracle: one stream header, every later line inside a header-introduced block, blocks only for admitted (stream, target, command), per key concatenation == stored log, and no second task at stream.mid while one is held; states/transitions = blocks relayed" % GAP}
    by = {}
    for v in agg["violations"]:
        by[v["sig"]] = by.get(v["sig"], 0) + 1
    agg["by_sig"] = by
    agg["violation_count"] = len(agg["violations"])
    agg["violations"] = sorted(agg["violations"], key=lambda v: v["rank"])[:100]
    return agg, ["kernel TCP timing between monorail and the listener is free-running; kill positions are logical states of the controlled children",
                 "children write newline-terminated UTF-8 text (the statement's domain)"]


def replay(prop, path):
    body = json.load(open(path))
    case = body["case"]
    if "c15" in case:
        d = case["c15"]
        # the burst pattern depends on the fate: the baseline is replayed with the same pattern
        if d.get("pattern") == "second-run":
            base = c15_second_run({"listener": None, "fate": "never", "pattern": "second-run"})
            obs = c15_second_run(d)
        else:
            base = c15_run({"listener": None, "fate": d["fate"], "pattern": d.get("pattern"), "names": d.get("names"), "foreign": d.get("foreign"), "ncmd": d.get("ncmd")})
            obs = c15_run(d)
        if "engine_error" in obs or "engine_error" in base:
            print("ENGINE:", obs.get("engine_error") or base.get("engine_error"))
            return 2
        viol = c15_compare(d, obs, base)
        viol = [{"sig": a, "detail": b} for a, b in viol]
    else:
        r = c20_two_runs(case["c20"]) if case["c20"].get("two_runs") else c20_run(case["c20"])
        if "engine_error" in r:
            print("ENGINE:", r["engine_error"])
            return 2
        viol = r.get("violations", [])
    if viol:
        for v in viol:
            print("REPLAY property=%s still violates: [%s] %s" % (prop, v["sig"], v["detail"][:300]))
        print("VIOLATION property=%s replay=%s" % (prop, path))
        return 1
    print("REPLAY property=%s: case passes on the current tree" % prop)
    return 0
