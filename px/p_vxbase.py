"""Helpers for properties decided by an in-process explorer (vx) plus a CLI conformance slice."""
import json
import common
import cli_slices
import cli_cfg


def replay(prop, path, vxname):
    body = json.load(open(path))
    case = body.get("case", {})
    if "cli_c18_cp" in case or "cli_c18_port0" in case or "cli_c18_slow" in case or "cli_c18_pipe" in case or "cli_c08_big" in case or "cli_c18_defaults" in case or "cli_c17_names" in case or "cli_c17_regen" in case or "cli_c17_else" in case or "cli_c17" in case or "cli_c18" in case or "cli_c08" in case or "cli_c08_repeat" in case or "cli_c08_show" in case or "cli_c08_tiny" in case or "cli_c08_latest" in case:
        defects = cli_cfg.replay_case(prop, case)
    elif "cli_cyc_ckpt" in case:
        n, edges = case["cli_cyc_ckpt"][:2]
        r = cli_slices.cyc_ckpt_task((n, [tuple(e) for e in edges]) + tuple(case["cli_cyc_ckpt"][2:3]))
        defects = [{"sig": "cli:" + s, "detail": d} for s, d, _ in r["v"]]
    elif "cli_big_cycle" in case:
        r = cli_slices.big_cycle_task(case["cli_big_cycle"])
        defects = [{"sig": "cli:" + s, "detail": d} for s, d, _ in r["v"]]
    elif "cli_c10_symlinks" in case:
        defects = [{"sig": "cli:" + s, "detail": d} for s, d in cli_slices.c10_symlink_task(0)]
    elif "cli_symlink_targets" in case:
        r = cli_slices.symlink_targets_task(case["cli_symlink_targets"])
        defects = [{"sig": "cli:" + s, "detail": d} for s, d, _ in r["v"]]
    elif "cli_acyc_ckpt" in case:
        n, edges, prior = case["cli_acyc_ckpt"]
        r = cli_slices.acyc_ckpt_task((n, [tuple(e) for e in edges], prior))
        defects = [{"sig": "cli:" + s, "detail": d} for s, d, _ in r["v"]]
    elif "cli_config" in case or "cli_graph" in case:
        if "cli_graph" in case:
            g = case["cli_graph"]
            r = cli_slices.graph_task((prop, g["n"], [tuple(e) for e in g["edges"]], g["files"], g.get("ign")))
            defects = [{"sig": "cli:" + s, "detail": d} for s, d, _ in r["v"]]
        elif prop == "C10":
            defects = [{"sig": "cli:" + s, "detail": d} for s, d in cli_slices.c10_task(case["cli_config"]["targets"])]
        else:
            r = cli_slices.c01_task(case["cli_config"] if case["cli_config"].get("out_dir") else case["cli_config"]["targets"])
            defects = [{"sig": "cli:" + s, "detail": d} for s, d, _ in r["v"]]
    else:
        out = common.replay_vx(vxname, path)
        defects = out.get("defects", [])
    if defects:
        for d in defects:
            print("REPLAY property=%s still violates: [%s] %s" % (prop, d["sig"], d["detail"][:400]))
        print("VIOLATION property=%s replay=%s" % (prop, path))
        return 1
    print("REPLAY property=%s: case passes on the current tree" % prop)
    return 0
