"""Helpers for properties decided by an in-process explorer (vx)."""
import json
import common


def replay(prop, path, vxname):
    out = common.replay_vx(vxname, path)
    defects = out.get("defects", [])
    if defects:
        for d in defects:
            print("REPLAY property=%s still violates: [%s] %s" % (prop, d["sig"], d["detail"][:400]))
        print("VIOLATION property=%s replay=%s" % (prop, path))
        return 1
    print("REPLAY property=%s: case passes on the current tree" % prop)
    return 0
