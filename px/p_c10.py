import common, p_vxbase, cli_slices

ASSUME = ["paths are normalised relative paths inside the stated universe",
          "verif::index_edges reads the graph back through render_dotfile; the CLI slice (target render) must agree with it"]

def run(prop, tier):
    r = common.run_vx("c10", tier)
    cli_slices.merge(r, prop, tier)
    return r, ASSUME

def replay(prop, path):
    return p_vxbase.replay(prop, path, "c10")
