"""C12: latest-run addressing and bounded retention over run histories.
Explicit-state BFS to fixpoint: the state is the ACTUAL content of <out>/tracking/run.json and
<out>/run/** (decoded, timestamps dropped), hashed as found on disk, so a slot that still holds a
previous occupant's files is a different state and cannot be merged away."""
import hashlib
import json
import multiprocessing
import os
import re
import shutil
import time
import traceback

import common
import scratch as sc

TARGETS = [{"path": "a"}, {"path": "b"}]
# the alphabet of completing runs: different commands, targets and bytes, so leftovers are visible
RUNS = [
    {"name": "build-a-ok", "args": ["-c", "build", "-t", "a"], "pairs": [("build", "a")]},
    {"name": "test-b-ok", "args": ["-c", "test", "-t", "b"], "pairs": [("test", "b")]},
    {"name": "lint-ab-b-fails", "args": ["-c", "lint", "-t", "a", "b"], "pairs": [("lint", "a"), ("lint", "b")]},
    # no explicit targets, a checkpoint exists and nothing changed since: a completed run of nothing
    {"name": "empty-nothing-changed", "args": ["-c", "build"], "pairs": []},
    # a run that aborts during execution with a fatal error (the command file is executable but
    # cannot be spawned): it is not a completed run, so everything recorded must stay as it was
    # (only for max_retained_runs >= 2, see DESIGN observation O1)
    {"name": "abort-unspawnable-command", "args": ["-c", "broken", "-t", "a"], "pairs": [], "aborts": True},
    # a run whose only fault is an undefined command under --fail-on-undefined (target a has no `test`):
    # it completes with failed=true, and that is what must be recorded
    {"name": "undefined-with-flag", "args": ["-c", "test", "-t", "a", "--fail-on-undefined"], "pairs": []},
    # not a run at all: other subcommands that work on the same output directory; what the last
    # completed run recorded must be addressed exactly as before
    {"name": "checkpoint-delete-then-update", "noop": [["checkpoint", "delete"], ["checkpoint", "update"]], "pairs": []},
    # a run that executes its command and then cannot write its own result record (the command is named like
    # the record file, so a directory is in the way): a fatal error, not a completed run
    # a sequence that expands to no command at all: a completed run with an empty result list
    {"name": "empty-sequence", "args": ["-s", "noop"], "pairs": [], "extra": True},   # (extra: only in the bounded-depth variant of the search)
    {"name": "abort-result-record-unwritable", "args": ["-c", "result.json.zst", "-t", "a"], "pairs": [], "aborts": True},
]
SCRIPTS = {
    ("build", "a"): (["out " + "build of a line 1\n".encode().hex(), "out " + "build of a line 2\n".encode().hex(), "exit 0"],
                     b"build of a line 1\nbuild of a line 2\n", b""),
    ("test", "b"): (["out " + "test of b\n".encode().hex(), "err " + "test of b warns\n".encode().hex(), "exit 0"],
                    b"test of b\n", b"test of b warns\n"),
    ("lint", "a"): (["err " + "lint a stderr only\n".encode().hex(), "exit 0"], b"", b"lint a stderr only\n"),
    ("lint", "b"): (["out " + "lint b fails\n".encode().hex(), "exit 3"], b"lint b fails\n", b""),
}
HEADER = re.compile(rb"^\[monorail \| (?:\x1b\[[0-9;]*m)?(stdout\.zst|stderr\.zst)(?:\x1b\[0m)? \| (.*?) \| (.*?)\]$")


def make_repo(s, maxr, out_dir=None):
    foreign = False
    if out_dir == "@foreign-cwd":
        out_dir, foreign = None, True
    cmds = {"a": {"build": "x", "lint": "x", "result.json.zst": "x"}, "b": {"test": "x", "lint": "x"}}
    # Monorail.json (which carries per-scratch ports) is kept out of git so that HEAD, and with it the
    # checkpoint id stored in the copied output directory, is the same in every scratch repository
    r = sc.Repo(s, "r", TARGETS, commands=cmds, max_retained_runs=maxr, init_git=True,
                cfg_extra=dict({"sequences": {"noop": []}}, **({"out_dir": out_dir} if out_dir else {})),
                files={".gitignore": "monorail-out\nMonorail.json\n" + ("%s\n" % out_dir.split("/")[0] if out_dir else "")})
    for (c, t), (lines, _, _) in SCRIPTS.items():
        r.set_script(t, c, lines)
    bad = r.path("a/monorail/cmd/broken.sh")
    with open(bad, "w") as f:
        f.write("#!/nonexistent/interpreter\n")
    os.chmod(bad, 0o755)
    r.commit("broken command")
    if foreign:
        r.foreign_cwd()
    return r


def canon_result(doc):
    if doc is None:
        return None
    d = json.loads(json.dumps(doc))
    d.pop("timestamp", None)
    # states are copied between scratch directories: the directory name is not part of the comparison
    try:
        d["out"]["run"]["path"] = re.sub(r"/mrv-[^/]+/", "/mrv-X/", d["out"]["run"]["path"])
    except (KeyError, TypeError):
        pass
    if isinstance(d.get("invocation"), str):
        d["invocation"] = re.sub(r"/mrv-[^/]+/", "/mrv-X/", d["invocation"])
    for cr in d.get("results", []):
        for g in cr.get("target_groups", []):
            for t in g.values():
                t.pop("runtime_secs", None)
    return d


def disk_state(r):
    """Canonical description of everything under <out>: pointer + per slot listing and decoded files."""
    out = r.out_dir()
    st = {"pointer": None, "slots": {}}
    p = os.path.join(out, "tracking", "run.json")
    if os.path.exists(p):
        st["pointer"] = open(p).read()
    rd = os.path.join(out, "run")
    if os.path.isdir(rd):
        for slot in sorted(os.listdir(rd)):
            files = {}
            for root, _, fs in os.walk(os.path.join(rd, slot)):
                for f in fs:
                    fp = os.path.join(root, f)
                    rel = os.path.relpath(fp, os.path.join(rd, slot))
                    try:
                        data = sc.zstd_cat(fp)
                    except Exception as e:
                        data = ("<undecodable: %s>" % e).encode()
                    if f == "result.json.zst":
                        try:
                            d = canon_result(json.loads(data))
                            d.get("out", {}).get("run", {}).pop("path", None)
                            # with `-f <config>` the invocation string contains the scratch path
                            # (older slots were written from other scratch directories)
                            d["invocation"] = re.sub(r"-f \S*Monorail\.json ", "", str(d.get("invocation", "")))
                            data = json.dumps(d, sort_keys=True).encode()
                        except Exception:
                            pass
                    files[rel] = hashlib.sha256(data).hexdigest()
            st["slots"][slot] = files
    return st


def parse_log_show(out):
    """stdout of `log show` -> sorted list of (file, target, command, body bytes exactly as printed)."""
    blocks = []
    cur = None
    for line in out.splitlines(keepends=True):
        m = HEADER.match(line.rstrip(b"\n"))
        if m and line.endswith(b"\n"):
            cur = [m.group(1).decode(), m.group(2).decode(), m.group(3).decode(), b""]
            blocks.append(cur)
        elif cur is not None:
            cur[3] += line
        else:
            blocks.append(["<no header>", "", "", line])
    return sorted(tuple(b) for b in blocks)


def executed_pairs(doc):
    """(command, target) pairs whose executable ran according to the document the run printed
    (with -t the order of the serial groups is unspecified, so a failing target may come first and
    the other one is skipped)."""
    out = set()
    for cr in (doc or {}).get("results", []):
        for g in cr.get("target_groups", []):
            for t, v in g.items():
                if v.get("status") in ("success", "error"):
                    out.add((cr["command"], t))
    return out


def expected_logs(run, ran=None):
    exp = []
    for (c, t) in run["pairs"]:
        if ran is not None and (c, t) not in ran:
            continue
        _, so, se = SCRIPTS[(c, t)]
        if so:
            exp.append(("stdout.zst", t, c, so))
        if se:
            exp.append(("stderr.zst", t, c, se))
    return sorted(exp)


def observe(r, maxr, history, printed, ran_by_step, wiped_by_abort=False):
    """history: list of run indices so far (oldest first); printed: the document the last run printed."""
    v = []
    completed_steps = [i for i, h in enumerate(history) if not RUNS[h].get("aborts") and not RUNS[h].get("noop")]
    last = RUNS[history[completed_steps[-1]]]
    res = r.mr("result", "show")
    if canon_result(res.json()) != canon_result(printed):
        v.append(("result-show-differs", "result show %s vs printed %s" % (json.dumps(canon_result(res.json()))[:300], json.dumps(canon_result(printed))[:300])))
    ls = r.mr("log", "show", "--stdout", "--stderr")
    got = parse_log_show(ls.out)
    want = expected_logs(last, executed_pairs(printed))
    del wiped_by_abort
    if ls.code != 0 or got != want:
        v.append(("log-show-differs", "log show after %s: %s, expected %s (exit %s)" % (last["name"], got, want, ls.code)))
    # slots of the retained runs: ids cycle 1..=max
    # slot model: a completed run takes the slot after the pointer and advances the pointer; an aborted
    # run wipes that same slot and leaves the pointer alone
    pointer = 0
    occupant = {}       # slot -> step of the completed run whose records it holds (None: wiped)
    for step, h in enumerate(history):
        if RUNS[h].get("noop"):
            continue
        nxt = (0 if pointer >= maxr else pointer) + 1
        if RUNS[h].get("aborts"):
            occupant[nxt] = None
        else:
            occupant[nxt] = step
            pointer = nxt
    retained = sorted(completed_steps)[-maxr:]
    for step in retained:
        h = history[step]
        sl = [s_ for s_, st_ in occupant.items() if st_ == step]
        if not sl:
            continue   # its slot was taken or wiped by a later (possibly aborted) run: not judged
        sl = sl[0]
        if step not in ran_by_step:
            continue
        lr = r.mr("log", "show", "--id", str(sl), "--stdout", "--stderr")
        g = parse_log_show(lr.out)
        w = expected_logs(RUNS[h], ran_by_step.get(step))
        if lr.code != 0 or g != w:
            v.append(("log-show-id-differs", "log show --id %d (run %s): %s, expected %s" % (sl, RUNS[h]["name"], g, w)))
    rd = os.path.join(r.out_dir(), "run")
    n = len(os.listdir(rd)) if os.path.isdir(rd) else 0
    if n > maxr:
        v.append(("too-many-run-directories", "%d run directories with max_retained_runs=%d" % (n, maxr)))
    return v


def transition(task):
    maxr, store, parent_key, history, ri, ran_hist = task
    out_dir = None
    if isinstance(maxr, tuple):
        maxr, out_dir = maxr
    s = sc.Scratch("c12")
    try:
        r = make_repo(s, maxr, out_dir)
        if parent_key is not None:
            shutil.copytree(os.path.join(store, parent_key), r.out_dir())
        else:
            if r.mr("checkpoint", "update").code != 0:
                raise common.EngineError("checkpoint update failed")
        run = RUNS[ri]
        if run.get("aborts") and maxr < 2:
            return {"key": parent_key, "violations": [], "obs": None, "ran": {int(k): sorted(v) for k, v in ran_hist.items() if isinstance(k, int)}, "same": True}
        if run.get("noop"):
            viol = []
            for argv in run["noop"]:
                o = r.mr(*argv)
                if o.code != 0:
                    viol.append(("other-subcommand-failed", "%s: exit %s %s" % (" ".join(argv), o.code, o.err[:200])))
            last_doc = ran_hist.get("doc")
            completed = [h for h in history if not RUNS[h].get("aborts") and not RUNS[h].get("noop")]
            if last_doc is not None and completed:
                v2 = observe(r, maxr, history + [ri], last_doc, {k: v for k, v in ran_hist.items() if isinstance(k, int)})
                viol += [(sig + ":after-" + run["name"], d) for sig, d in v2]
            st = disk_state(r)
            key = hashlib.sha256(json.dumps(st, sort_keys=True).encode()).hexdigest()[:24]
            dst = os.path.join(store, key)
            if not os.path.exists(dst):
                tmp = dst + ".tmp%d" % os.getpid()
                shutil.copytree(r.out_dir(), tmp)
                try:
                    os.rename(tmp, dst)
                except OSError:
                    shutil.rmtree(tmp, ignore_errors=True)
            return {"key": key, "violations": _wrap(viol, maxr, history + [ri], out_dir), "obs": None,
                    "ran": {k: (sorted(v) if isinstance(k, int) else v) for k, v in ran_hist.items()}}
        res = r.mr("run", *run["args"], env=r.trace_env())
        doc = res.json()
        viol = []
        if run.get("aborts"):
            if res.code in (0, 1) and doc is not None:
                # it printed a result document and ended like a completed run: then it IS the most recent
                # completed run and `result show` has to return that document
                rs = r.mr("result", "show")
                if rs.code != 0 or canon_result(rs.json()) != canon_result(doc):
                    viol.append(("result-show-differs", "%s ended like a completed run (exit %s, document printed) but result show gives exit %s %s" % (
                        run["name"], res.code, rs.code, (rs.err or rs.out)[:200])))
                    return {"key": None, "violations": _wrap(viol, maxr, history + [ri], out_dir), "obs": None, "ran": {}}
                return {"engine_error": "%s was expected to end with a fatal error but completed and was recorded (exit %s): the history model does not apply" % (run["name"], res.code)}
            last_doc = ran_hist.get("doc")
            completed = [h for h in history if not RUNS[h].get("aborts") and not RUNS[h].get("noop")]
            if last_doc is not None and completed:
                v2 = observe(r, maxr, history + [ri], last_doc, {k: v for k, v in ran_hist.items() if isinstance(k, int)}, wiped_by_abort=True)
                viol += [(sig + ":after-aborted-run", d) for sig, d in v2]
            else:
                rs = r.mr("result", "show")
                if rs.code == 0:
                    viol.append(("result-show-invents-a-run", "no run ever completed, an aborted run happened, and result show prints %s" % rs.out[:150]))
            st = disk_state(r)
            key = hashlib.sha256(json.dumps(st, sort_keys=True).encode()).hexdigest()[:24]
            dst = os.path.join(store, key)
            if not os.path.exists(dst):
                tmp = dst + ".tmp%d" % os.getpid()
                shutil.copytree(r.out_dir(), tmp)
                try:
                    os.rename(tmp, dst)
                except OSError:
                    shutil.rmtree(tmp, ignore_errors=True)
            ran = {k: v for k, v in ran_hist.items()}
            return {"key": key, "violations": _wrap(viol, maxr, history + [ri], out_dir), "obs": None,
                    "ran": {k: (sorted(v) if isinstance(k, int) else v) for k, v in ran.items()}, "aborted": True}
        if doc is None or res.code not in (0, 1):
            viol.append(("run-did-not-complete", "%s: exit %s %s" % (run["name"], res.code, res.err[:300])))
            return {"key": None, "violations": _wrap(viol, maxr, history + [ri], out_dir), "obs": None, "ran": {}}
        ran = {k: v for k, v in ran_hist.items() if isinstance(k, int)}
        ran[len(history)] = executed_pairs(doc)
        viol += observe(r, maxr, history + [ri], doc, ran)
        ran["doc"] = doc
        st = disk_state(r)
        key = hashlib.sha256(json.dumps(st, sort_keys=True).encode()).hexdigest()[:24]
        dst = os.path.join(store, key)
        if not os.path.exists(dst):
            tmp = dst + ".tmp%d" % os.getpid()
            shutil.copytree(r.out_dir(), tmp)
            try:
                os.rename(tmp, dst)
            except OSError:
                shutil.rmtree(tmp, ignore_errors=True)
        return {"key": key, "violations": _wrap(viol, maxr, history + [ri], out_dir), "obs": json.dumps(canon_result(doc), sort_keys=True),
                "ran": {k: (sorted(v) if isinstance(k, int) else v) for k, v in ran.items() if not isinstance(k, int) or k >= len(history) + 1 - maxr - 4}}
    except common.EngineError as e:
        return {"engine_error": str(e)}
    except Exception:
        return {"engine_error": traceback.format_exc()[-1500:]}
    finally:
        s.cleanup()


def big_result_task(task):
    """One run whose result document is several MiB large (many targets with long paths x many commands, nearly all
    of them undefined for the targets, so hardly any process is started): `result show` returns that document,
    and after a small run the small one."""
    ntargets, ncommands = task
    s = sc.Scratch("c12big")
    try:
        names = ["%s/%s%03d" % ("p" * 200, "q" * 190, i) for i in range(ntargets)]
        ts = [{"path": n} for n in names]
        r = sc.Repo(s, "r", ts, commands={names[0]: {"c000": "x"}}, max_retained_runs=3, init_git=False)
        cmds = ["c%03d" % i for i in range(ncommands)]
        viol = []
        res = r.mr("run", "-c", *cmds, env=r.trace_env(), timeout=600)
        doc = res.json()
        if res.code != 0 or doc is None:
            return {"engine_error": "the wide run did not complete: exit %s %s" % (res.code, res.err[:200])}
        size = len(res.out)
        rs = r.mr("result", "show", timeout=600)
        if rs.code != 0 or canon_result(rs.json()) != canon_result(doc):
            viol.append(("result-show-differs", "a completed run printed a document of %d bytes (%d targets x %d commands); result show: exit %s %s" % (size, ntargets, ncommands, rs.code, (rs.err or rs.out)[:200])))
        small = r.mr("run", "-c", "c000", "-t", names[0], env=r.trace_env())
        rs2 = r.mr("result", "show")
        if small.code != 0 or rs2.code != 0 or canon_result(rs2.json()) != canon_result(small.json()):
            viol.append(("result-show-differs", "after the wide run a small run: result show exit %s differs from what the run printed" % rs2.code))
        return {"violations": [{"sig": sig, "detail": d, "rank": 5, "case": {"big_result": list(task)}} for sig, d in viol], "evals": 3, "bytes": size}
    except common.EngineError as e:
        return {"engine_error": str(e)}
    except Exception:
        return {"engine_error": traceback.format_exc()[-1500:]}
    finally:
        s.cleanup()


def linear_task(task):
    """One long history in one repository for a large max_retained_runs (None: the default, 10): the
    slot counter wraps from a multi-digit id back to 1. After every run the same observations as in
    the BFS are judged."""
    maxr, pattern, length = task[:3]
    with_listener = len(task) > 3 and task[3] == "listener"
    verbose = len(task) > 3 and task[3] == "verbose"
    eff = 10 if maxr is None else maxr
    s = sc.Scratch("c12lin")
    try:
        r = make_repo(s, maxr)
        if r.mr("checkpoint", "update").code != 0:
            raise common.EngineError("checkpoint update failed")
        history, ran, viol = [], {}, []
        obs = set()
        if with_listener:
            import subprocess
            lis = subprocess.Popen([common.MONORAIL, "log", "tail", "--stdout", "--stderr"], cwd=r.dir, env=s.env(),
                                   stdout=subprocess.DEVNULL, stderr=subprocess.DEVNULL, start_new_session=True)
            s.popens.append(lis)
            t_end = time.time() + 10
            while not sc.port_listening(r.log_port):
                if lis.poll() is not None or time.time() > t_end:
                    raise common.EngineError("log tail did not start")
                time.sleep(0.02)
        for i in range(length):
            ri = pattern[i % len(pattern)]
            if verbose:
                r.global_flags = ["-vv"]   # the run also prints its own diagnostics (the observers below do not)
            res = r.mr("run", *RUNS[ri]["args"], env=r.trace_env())
            r.global_flags = None
            doc = res.json()
            history.append(ri)
            if doc is None or res.code not in (0, 1):
                viol.append(("run-did-not-complete", "run %d (%s) of a long history: exit %s %s" % (i + 1, RUNS[ri]["name"], res.code, res.err[:300])))
                break
            ran[i] = executed_pairs(doc)
            obs.add(json.dumps(canon_result(doc), sort_keys=True))
            v = observe(r, eff, history, doc, ran)
            if v:
                viol += [(sig, "after run %d of the history: %s" % (i + 1, d)) for sig, d in v]
                break
        case = {"linear": [maxr, list(pattern), length] + (["listener"] if with_listener else ["verbose"] if verbose else [])}
        return {"transitions": len(history), "obs": sorted(obs),
                "violations": [{"sig": sig, "detail": d, "rank": 100000 + len(history), "case": case} for sig, d in viol]}
    except common.EngineError as e:
        return {"engine_error": str(e)}
    except Exception:
        return {"engine_error": traceback.format_exc()[-1500:]}
    finally:
        s.cleanup()


def wide_task(n):
    """Runs over n targets (no checkpoint: every target is covered), so that the result document is far
    larger than any buffer (about 100 bytes per target): result show must still return exactly what the
    run printed, log show the three logs that exist, and retention must hold."""
    s = sc.Scratch("c12wide")
    try:
        ts = [{"path": "w/t%04d" % i} for i in range(n)]
        r = sc.Repo(s, "r", ts, commands={t["path"]: {"build": "x"} for t in ts}, max_retained_runs=2, init_git=False)
        viol = []
        trans = 0
        for k in range(3):
            want = []
            for i in (0, n // 2, n - 1):
                body = ("run %d output of %s\n" % (k, ts[i]["path"])).encode()
                r.set_script(ts[i]["path"], "build", ["out " + body.hex(), "exit 0"])
                want.append(("stdout.zst", ts[i]["path"], "build", body))
            res = r.mr("run", "-c", "build", env=r.trace_env(), timeout=300)
            doc = res.json()
            trans += 1
            if res.code != 0 or doc is None:
                viol.append(("run-did-not-complete", "run %d over %d targets: exit %s %s" % (k + 1, n, res.code, res.err[:200])))
                break
            rs = r.mr("result", "show")
            if canon_result(rs.json()) != canon_result(doc):
                viol.append(("result-show-differs", "run %d over %d targets (document of %d bytes): result show exit %s, %d bytes" % (k + 1, n, len(res.out), rs.code, len(rs.out))))
            ls = r.mr("log", "show", "--stdout", "--stderr")
            if ls.code != 0 or parse_log_show(ls.out) != sorted(want):
                viol.append(("log-show-differs", "run %d over %d targets: log show exit %s, %d blocks" % (k + 1, n, ls.code, len(parse_log_show(ls.out)))))
            rd = os.path.join(r.out_dir(), "run")
            if len(os.listdir(rd)) > 2:
                viol.append(("too-many-run-directories", "%d run directories with max_retained_runs=2" % len(os.listdir(rd))))
        # very short runs that reuse the slots of the very large ones
        for k in range(3):
            res = r.mr("run", "-c", "build", "-t", ts[0]["path"], env=r.trace_env())
            trans += 1
            if res.code != 0:
                viol.append(("run-did-not-complete", "short run %d after the large ones: exit %s %s" % (k + 1, res.code, res.err[:200])))
                break
            time.sleep(0.3)
            names = sorted(os.listdir(os.path.join(r.out_dir(), "run")))
            if len(names) > 2:
                viol.append(("too-many-run-directories", "after a short run reused the slot of a run over %d targets: %s with max_retained_runs=2" % (n, names)))
                break
        return {"transitions": trans, "obs": [],
                "violations": [{"sig": sig, "detail": d, "rank": 200000 + n, "case": {"wide": n}} for sig, d in viol]}
    except common.EngineError as e:
        return {"engine_error": str(e)}
    except Exception:
        return {"engine_error": traceback.format_exc()[-1500:]}
    finally:
        s.cleanup()


def linear_cases(tier):
    pats = [(0, 1, 2, 3), (2,), (0,)]
    out = [(m, p, 2 * (m or 10) + 3) for m in (10, None, 11) for p in pats]
    out += [(9, pats[0], 21), (2, pats[0], 9, "listener"), (3, (2, 0, 1), 10, "listener"), (2, pats[0], 7, "verbose")]
    if tier != "quick":
        out += [(100, pats[0], 203), (100, pats[1], 103), (12, pats[0], 27), (20, pats[0], 43), (99, pats[0], 102), (101, pats[0], 104)]
    return out


def _wrap(viol, maxr, history, out_dir=None):
    return [{"sig": sig, "detail": d, "rank": len(history) * 10 + maxr,
             "case": {"max_retained_runs": maxr, "out_dir": out_dir, "history": [RUNS[h]["name"] for h in history]}} for sig, d in viol]


def run(prop, tier):
    maxes = [1, 2] if tier == "quick" else [1, 2, 3]
    store_s = sc.Scratch("c12store")
    agg = {"states": 0, "transitions": 0, "violations": [], "samples": [], "traces_validated_against_impl": 0, "fixpoint": {}}
    obs = set()
    ctx = multiprocessing.get_context("fork")
    try:
        if True:
            # also a custom out_dir (nested, with a space), and every invocation made from another directory
            variants = [(m, None) for m in maxes] + [(2, "var/mr out"), (2, "@foreign-cwd"), (2, "@with-abort")]
            for (maxr, odir) in variants:
                store = os.path.join(store_s.dir, "m%d%s" % (maxr, "" if not odir else "a" if odir == "@with-abort" else "f" if odir.startswith("@") else "o"))
                os.makedirs(store)
                seen = {None: []}
                frontier = [(None, [], {})]
                depth = 0
                cap = 4 * maxr + 2
                with_abort = odir == "@with-abort"
                if with_abort:
                    odir = None
                    cap = 4 if tier == "quick" else 7   # bounded depth: aborted runs leave debris, the space is large
                alphabet = [i for i in range(len(RUNS)) if with_abort or not (RUNS[i].get("aborts") or RUNS[i].get("extra"))]
                while frontier and depth < cap:
                    tasks = [((maxr, odir) if odir else maxr, store, k, h, ri, rh) for (k, h, rh) in frontier for ri in alphabet]
                    results = common.pmap(transition, tasks)
                    errs = [r["engine_error"] for r in results if "engine_error" in r]
                    if errs:
                        raise common.EngineError("; ".join(errs[:2]))
                    nxt = []
                    for t, r in zip(tasks, results):
                        agg["transitions"] += 1
                        agg["traces_validated_against_impl"] += 1
                        agg["violations"].extend(r["violations"])
                        if r["obs"]:
                            obs.add(r["obs"])
                        if r["key"] is not None and r["key"] not in seen:
                            seen[r["key"]] = t[3] + [t[4]]
                            nxt.append((r["key"], t[3] + [t[4]], {k: (set(map(tuple, v)) if isinstance(k, int) else v) for k, v in r["ran"].items()}))
                    frontier = nxt
                    depth += 1
                    if len(seen) > 1500:
                        # a healthy tree converges at a few dozen states; do not run for ever on one that does not
                        agg.setdefault("notes", []).append("max=%s: more than 1500 states, search stopped" % (maxr,))
                        break
                agg["states"] += len(seen)
                agg["fixpoint"][str(maxr) + ("+aborting run (depth-bounded)" if with_abort else "" if not odir else "+foreign cwd" if odir.startswith("@") else "+custom out_dir")] = {"states": len(seen), "depth": depth, "converged": (not frontier) or with_abort}
                if len(seen) > 2:
                    agg["samples"].append({"max_retained_runs": maxr, "out_dir": odir, "history": [RUNS[h]["name"] for h in list(seen.values())[-1]]})
        lin = linear_cases(tier)
        lres = common.pmap(linear_task, lin) + common.pmap(wide_task, [700] if tier == "quick" else [700, 1500])
        errs = [r["engine_error"] for r in lres if "engine_error" in r]
        if errs:
            raise common.EngineError("; ".join(errs[:2]))
        for r in lres:
            agg["transitions"] += r["transitions"]
            agg["traces_validated_against_impl"] += r["transitions"]
            agg["violations"].extend(r["violations"])
            obs.update(r["obs"])
        bres = common.pmap(big_result_task, [(120, 101)] if tier == "quick" else [(120, 101), (200, 150)])
        errs = [r["engine_error"] for r in bres if "engine_error" in r]
        if errs:
            raise common.EngineError("; ".join(errs[:2]))
        for r in bres:
            agg["transitions"] += r["evals"]
            agg["traces_validated_against_impl"] += r["evals"]
            agg["violations"].extend(r["violations"])
        agg["largest_result_document_bytes"] = max(r["bytes"] for r in bres)
        agg["long_histories"] = [{"max_retained_runs": x[0] if x[0] is not None else "default", "pattern": [RUNS[i]["name"] for i in x[1]], "runs": x[2], "listener": len(x) > 3} for x in lin]
    finally:
        store_s.cleanup()
    agg["distinct_result_documents"] = len(obs)
    agg["evaluations"] = agg["transitions"]
    agg["distinct_nontrivial"] = agg["states"]
    agg["exhaustive"] = all(f["converged"] for f in agg["fixpoint"].values())
    agg["rule"] = "BFS to fixpoint over run histories for max_retained_runs in %s (plus, for max 2, a depth-bounded search whose alphabet also contains a run that aborts with a fatal error during execution); alphabet of completing runs: %s; state = actual disk content of <out>/tracking/run.json and <out>/run/** (decoded, timestamps and run times dropped); plus %d single long histories (not a fixpoint search) for max_retained_runs in 9..12/20/99..101/default that cross the wrap of the slot counter from a multi-digit id to 1 at least once; plus three runs over 700 targets (thorough also 1500) whose result document is far larger than 64 KiB; plus one run of 120 long-named targets x 101 commands (thorough also 200 x 150) whose result document is several MiB; after every transition: result show == the document that run printed, log show == exactly that run's logs, log show --id <slot> for each retained run, number of run directories <= max" % (maxes, [r["name"] for r in RUNS], len(lin))
    by = {}
    for v in agg["violations"]:
        by[v["sig"]] = by.get(v["sig"], 0) + 1
    agg["by_sig"] = by
    agg["violation_count"] = len(agg["violations"])
    agg["violations"] = sorted(agg["violations"], key=lambda v: v["rank"])[:100]
    return agg, ["only runs that complete (exit 0 or 1 with a result document) are in the alphabet (DESIGN observation O1)",
                 "three runs use explicit targets; the fourth is a change-detected run that resolves to zero targets (a checkpoint exists from the start and nothing changes)"]


def replay(prop, path):
    body = json.load(open(path))
    case = body["case"]
    if "wide" in case:
        r = wide_task(case["wide"])
        if "engine_error" in r:
            print("ENGINE:", r["engine_error"])
            return 2
        for v in r["violations"]:
            print("REPLAY property=%s still violates: [%s] %s" % (prop, v["sig"], v["detail"][:300]))
        if r["violations"]:
            print("VIOLATION property=%s replay=%s" % (prop, path))
            return 1
        print("REPLAY property=%s: case passes on the current tree" % prop)
        return 0
    if "big_result" in case:
        r = big_result_task(tuple(case["big_result"]))
        if "engine_error" in r:
            print("ENGINE:", r["engine_error"])
            return 2
        for v in r["violations"]:
            print("REPLAY property=%s still violates: [%s] %s" % (prop, v["sig"], v["detail"][:300]))
        if r["violations"]:
            print("VIOLATION property=%s replay=%s" % (prop, path))
            return 1
        print("REPLAY property=%s: case passes on the current tree" % prop)
        return 0
    if "linear" in case:
        m, p, n = case["linear"][:3]
        r = linear_task((m, tuple(p), n) + tuple(case["linear"][3:]))
        if "engine_error" in r:
            print("ENGINE:", r["engine_error"])
            return 2
        for v in r["violations"]:
            print("REPLAY property=%s still violates: [%s] %s" % (prop, v["sig"], v["detail"][:300]))
        if r["violations"]:
            print("VIOLATION property=%s replay=%s" % (prop, path))
            return 1
        print("REPLAY property=%s: case passes on the current tree" % prop)
        return 0
    maxr = case["max_retained_runs"]
    if case.get("out_dir"):
        maxr = (maxr, case["out_dir"])
    names = [r["name"] for r in RUNS]
    hist = [names.index(n) for n in case["history"]]
    store_s = sc.Scratch("c12replay")
    try:
        store = os.path.join(store_s.dir, "st")
        os.makedirs(store)
        key = None
        viol = []
        ranh = {}
        for i, ri in enumerate(hist):
            r = transition((maxr, store, key, hist[:i], ri, ranh))
            ranh = {k: (set(map(tuple, v)) if isinstance(k, int) else v) for k, v in r.get("ran", {}).items()}
            if "engine_error" in r:
                print("ENGINE:", r["engine_error"])
                return 2
            key = r["key"]
            viol = r["violations"]
            if key is None:
                break
    finally:
        store_s.cleanup()
    if viol:
        for v in viol:
            print("REPLAY property=%s still violates: [%s] %s" % (prop, v["sig"], v["detail"][:300]))
        print("VIOLATION property=%s replay=%s" % (prop, path))
        return 1
    print("REPLAY property=%s: case passes on the current tree" % prop)
    return 0
