"""E3: stateless depth-first search over child-completion schedules of one real `monorail run`.

One execution = one real `monorail run` whose children all block in vhelper (controlled mode) until
the driver releases them. A decision point is a moment at which the driver must release somebody;
its enabled list is the waiting children in canonical order. `run_once(prefix)` follows the recorded
choices (an out-of-range choice or a differing enabled list is a divergence = engine error), then
takes choice 0 to the end; `explore` branches on every alternative at every later decision."""
import json
import os
import subprocess
import time

import common
import ctl as ctlmod
import scratch as sc

STALL = 2.0  # seconds to wait for an expected arrival before proceeding (tolerant driver)


def inside(x, p):
    return x == p or x.startswith(p + "/")


def dep(targets, t, u):
    """targets: {path: target dict}. dep(T,U) per DESIGN section 3."""
    if t == u:
        return False
    return inside(t, u) or any(inside(s, u) for s in targets[t].get("uses", []) or [])


def closure(targets, roots):
    seen, stack = set(), list(roots)
    while stack:
        n = stack.pop()
        if n in seen:
            continue
        seen.add(n)
        stack.extend(u for u in targets if dep(targets, n, u))
    return seen


class Scenario:
    """Everything needed to (re)create one run: configuration, command files, run arguments,
    fault assignment and eager set."""

    def __init__(self, name, targets, cmdmodes, args, commands, checkpoint=None, changed=(),
                 faults=None, eager=(), fail_on_undefined=False, sequences=None, explicit=None,
                 deps=False, max_group_perm=4):
        self.name = name
        self.targets = targets            # list of target dicts
        self.cmdmodes = cmdmodes          # {(target, command): 'x'|'nox'|None}
        self.args = args                  # extra CLI args after `run`
        self.commands = commands          # expanded command list in documented order
        self.checkpoint = checkpoint      # None | 'head'
        self.changed = list(changed)      # targets touched after the checkpoint
        self.faults = faults or {}        # {(command, target): exit code}
        self.eager = set(eager)           # {(command, target)} released the instant they arrive
        self.fail_on_undefined = fail_on_undefined
        self.sequences = sequences
        self.explicit = explicit          # list of -t targets or None
        self.deps = deps
        self.max_group_perm = max_group_perm
        self.context = None               # surroundings of the run (p_sched.apply_context)
        self.close_streams = False        # every child closes stdout and stderr as soon as it has started
        self.binary_output = False        # every child prints bytes that are not valid UTF-8

    def describe(self):
        return {
            "name": self.name, "targets": self.targets,
            "cmdmodes": [[t, c, m] for (t, c), m in sorted(self.cmdmodes.items())],
            "args": self.args, "commands": self.commands, "checkpoint": self.checkpoint,
            "changed": self.changed, "faults": [[c, t, code] for (c, t), code in sorted(self.faults.items())],
            "eager": sorted(list(e) for e in self.eager), "explicit": self.explicit, "deps": self.deps,
            "sequences": self.sequences, "context": self.context, "close_streams": self.close_streams, "binary_output": self.binary_output,
        }

    @staticmethod
    def from_desc(d):
        sn = Scenario._from_desc(d)
        sn.context = d.get("context")
        sn.close_streams = d.get("close_streams") or False   # True (every child) or a list of target paths
        sn.binary_output = bool(d.get("binary_output"))
        return sn

    @staticmethod
    def _from_desc(d):
        return Scenario(d["name"], d["targets"], {(t, c): m for t, c, m in d["cmdmodes"]}, d["args"],
                        d["commands"], d.get("checkpoint"), d.get("changed", ()),
                        {(c, t): code for c, t, code in d.get("faults", [])},
                        [tuple(e) for e in d.get("eager", [])],
                        "--fail-on-undefined" in d["args"], d.get("sequences"), d.get("explicit"), d.get("deps", False))


def build_repo(s, sn, name="r"):
    commands = {}
    for (t, c), m in sn.cmdmodes.items():
        commands.setdefault(t, {})[c] = m
    extra = {}
    if sn.sequences:
        extra["sequences"] = sn.sequences
    r = sc.Repo(s, name, sn.targets, commands=commands, cfg_extra=extra)
    if sn.checkpoint:
        res = r.mr("checkpoint", "update")
        if res.code != 0:
            raise common.EngineError("checkpoint update failed: %r" % res)
        for t in sn.changed:
            r.write(os.path.join(t, "changed.txt"), "x\n")
    return r


def expected_groups(r, sn):
    """The groups the code itself computes for this selection (pacing only; verdict-free)."""
    if sn.explicit is None:
        res = r.mr("analyze", "--target-groups")
        doc = res.json()
        if res.code != 0 or doc is None:
            return None, res
        return doc.get("target_groups"), res
    if not sn.deps:
        return [[t] for t in sn.explicit], None
    p = subprocess.run([common.VX, "groups", os.path.join(r.dir, "Monorail.json"), r.dir] + list(sn.explicit),
                       capture_output=True, text=True)
    try:
        v = json.loads(p.stdout.strip().splitlines()[-1])
    except Exception:
        raise common.EngineError("vx groups failed: %s %s" % (p.stdout, p.stderr))
    return v.get("groups"), None


class Exec:
    def __init__(self):
        self.decisions = []   # [(enabled [pair,...], choice index)]
        self.events = []
        self.arrive = {}      # pair -> [seq,...]
        self.release = {}     # pair -> seq
        self.gone = {}        # pair -> seq
        self.codes = {}       # pair -> exit code sent
        self.code = None
        self.doc = None
        self.err = None
        self.stalls = 0
        self.orphans = 0
        self.timeout = False
        self.diverged = None
        self.stderr = b""

    def order(self):
        return [e[c] for e, c in self.decisions]


def pair_of(r, ch):
    t = os.path.relpath(ch.cwd, r.dir)
    c = os.path.basename(ch.argv[0]).split(".")[0]
    return (c, t)


def run_once(s, r, sn, groups, prefix, extra_env=None, on_group_complete=None):
    """One complete execution following `prefix` then choice 0. Returns Exec."""
    ex = Exec()
    c = ctlmod.Controller(s)
    try:
        env = s.env(c.env())
        if extra_env:
            env.update(extra_env)
        argv_, cwd_ = r.cmdline("run", *sn.args)
        p = c.spawn("run", argv_, cwd_, env)
        cmd_index = {cmd: i for i, cmd in enumerate(sn.commands)}
        by_child = {}

        def closes(pr):
            return sn.close_streams is True or (isinstance(sn.close_streams, (list, tuple)) and pr[1] in sn.close_streams)

        def note():
            for ch in c.children:
                if ch.id not in by_child:
                    pr = pair_of(r, ch)
                    by_child[ch.id] = pr
                    if closes(pr):
                        # the executable closes (redirects) both of its output streams and keeps running
                        c.send(ch, ["closeout", "closeerr"])
                    ex.arrive.setdefault(pr, []).append(ch.arrive_seq)
                if ch.state == "gone" and by_child[ch.id] not in ex.gone and ch.release_seq is not None:
                    ex.gone[by_child[ch.id]] = ch.gone_seq

        def do_release(ch):
            pr = by_child[ch.id]
            code = sn.faults.get(pr, 0)
            if closes(pr):
                # it keeps running for a while with both streams closed: anything that takes "both
                # streams ended" for "the process ended" has time to act on that belief
                c.wait(lambda: p.done(), 0.45)
                note()
            lines_ = ["out " + ctlmod.hexs("%s:%s out\n" % pr), "err " + ctlmod.hexs("%s:%s err\n" % pr)]
            if sn.binary_output:
                # Latin-1 text and raw binary: neither line is valid UTF-8
                lines_ += ["out " + b"caf\xe9 au lait\n\xff\xfe\x00\x80\n".hex(), "err " + b"\xc3\x28 broken\n".hex()]
            c.release(ch, code, lines_)
            ex.release[pr] = ch.release_seq
            ex.codes[pr] = code
            c.wait(lambda: ch.state == "gone" or p.done(), 10)
            note()
            return code

        def eager_sweep():
            note()
            for ch in c.waiting():
                if by_child[ch.id] in sn.eager:
                    do_release(ch)

        failed = False
        stage_list = [(k, cmd, gi, g) for k, cmd in enumerate(sn.commands) for gi, g in enumerate(groups or [])]
        for (k, cmd, gi, g) in stage_list:
            if p.done() or failed:
                break
            # members expected to arrive: scheduled in group order until a scheduling fault
            expected = []
            for t in g:
                m = sn.cmdmodes.get((t, cmd))
                if m == "x" or (m and m.startswith("x") and m[1:].isdigit()):
                    expected.append((cmd, t))
                elif m in ("nox", "noxlink") or (m is None and sn.fail_on_undefined):
                    failed = True
                    break
            t_end = time.time() + STALL
            while True:
                c.pump(0.01)
                eager_sweep()
                have = {by_child[ch.id] for ch in c.children}
                if all(e in have for e in expected) or p.done():
                    break
                if time.time() > t_end:
                    ex.stalls += 1
                    break
            # decisions until nobody is waiting
            while True:
                c.pump(0.0)
                note()
                # children that belong to a later stage of the plan wait for their own stage
                later = {(c2, t2) for (k2, c2, g2i, g2) in stage_list if (k2, g2i) > (k, gi) for t2 in g2}
                waiting = [ch for ch in c.waiting() if by_child[ch.id] not in sn.eager and by_child[ch.id] not in later]
                if not waiting or p.done():
                    break
                waiting.sort(key=lambda ch: (cmd_index.get(by_child[ch.id][0], 99), by_child[ch.id][1], ch.id))
                enabled = [list(by_child[ch.id]) for ch in waiting]
                di = len(ex.decisions)
                if di < len(prefix):
                    want_enabled, choice = prefix[di]
                    if want_enabled is not None and want_enabled != enabled:
                        # divergence: the oracle is still evaluated on what actually executes, but the
                        # execution is flagged; a divergent exploration without a violation is an
                        # engine error (exit 2), never a pass
                        ex.diverged = "decision %d: enabled %s, recorded %s" % (di, enabled, want_enabled)
                        wanted = want_enabled[choice] if choice < len(want_enabled) else None
                        choice = enabled.index(wanted) if wanted in enabled else 0
                else:
                    choice = 0
                ex.decisions.append((enabled, choice))
                code = do_release(waiting[choice])
                if code != 0:
                    failed = True   # non-zero exit or death by signal: the plan is not expected to continue
                    break
            if on_group_complete:
                on_group_complete(c, k, gi)
        # anything still arriving after the plan (mutants), then the end of the run
        # after a failure the run is expected to end by itself within milliseconds; a run that keeps
        # going (and then blocks on children nobody releases) is cut off after a short horizon
        t_end = time.time() + (5 if failed else 20)
        t_fail = time.time()
        survivors_released = False
        while not p.done() and time.time() < t_end:
            c.pump(0.02)
            note()
            if failed and sn.close_streams and not survivors_released and time.time() - t_fail > 1.0:
                # a sibling that has closed its output streams cannot be stopped through them: monorail
                # waits for it to exit. Let the ones that were already running end now (exit 0); anything
                # that arrives later is still left alone and seen by the monitors.
                survivors_released = True
                for ch in list(c.waiting()):
                    if ch.id in by_child and closes(by_child[ch.id]):
                        c.release(ch, 0)
                        ex.release[by_child[ch.id]] = ch.release_seq
                        ex.codes[by_child[ch.id]] = 0
                t_end = time.time() + 5
            if not failed:
                for ch in c.waiting():
                    # unexpected late arrival: release it so the run can end; monitors see the events
                    ex.decisions.append(([list(by_child[ch.id])], 0))
                    do_release(ch)
        if not p.done():
            ex.timeout = True
            c.kill(p, group=True)
            c.wait(lambda: p.done(), 5)
        note()
        ex.orphans = len([ch for ch in c.children if ch.state == "waiting"])
        ex.code = p.code
        ex.stderr = p.err
        out = sc.Result(p.code, p.out, p.err)
        ex.doc = out.json()
        ex.err = out.err_json()
        ex.events = list(c.events)
        ex.children_pairs = dict(by_child)
        return ex
    finally:
        c.close()


def explore(s, r, sn, groups, monitor, max_execs=100000, extra_env=None):
    """Depth-first over all release orders. monitor(ex) -> list of (sig, detail). Returns stats."""
    stats = {"executions": 0, "transitions": 0, "states": set(), "violations": [], "docs": set(), "stalls": 0,
             "capped": False}
    stack = [[]]
    first = True
    while stack:
        prefix = stack.pop()
        if stats["executions"] >= max_execs:
            stats["capped"] = True
            break
        ex = run_once(s, r, sn, groups, prefix, extra_env)
        stats["executions"] += 1
        stats["transitions"] += len(ex.decisions)
        stats["stalls"] += ex.stalls
        released = []
        for enabled, choice in ex.decisions:
            stats["states"].add((tuple(sorted(map(tuple, released))), tuple(map(tuple, enabled))))
            released.append(enabled[choice])
        stats["states"].add((tuple(sorted(map(tuple, released))), ()))
        stats["docs"].add(canon_doc(ex.doc))
        if first:
            # replay the first schedule once more: identical observations or it is an engine error
            first = False
            ex2 = run_once(s, r, sn, groups, [(e, c) for e, c in ex.decisions], extra_env)
            if canon_doc(ex2.doc) != canon_doc(ex.doc) or ex2.code != ex.code or ex2.order() != ex.order():
                raise common.EngineError("replay of the first schedule diverged (%s)" % sn.name)
        for sig, detail in monitor(ex):
            stats["violations"].append({"sig": sig, "detail": detail, "rank": len(ex.decisions),
                                        "case": {"scenario": sn.describe(), "schedule": [[e, c] for e, c in ex.decisions]}})
        # branch on alternatives at every decision made after the prefix
        for i in range(len(ex.decisions) - 1, len(prefix) - 1, -1):
            enabled, choice = ex.decisions[i]
            if len(enabled) > sn.max_group_perm:
                continue
            for alt in range(len(enabled) - 1, choice, -1):
                stack.append([(e, c) for e, c in ex.decisions[:i]] + [(enabled, alt)])
    return stats


def canon_doc(doc, mask_siblings=True):
    """Canonical form of a result document: timestamps, run times and the slot path dropped; in a
    group that contains a failing entry the other members' statuses are masked, because the
    statement leaves cancelled siblings open (a sibling that had already exited 0 may be reported
    `success` or code-less `error` depending on internal timing)."""
    if doc is None:
        return "null"
    d = json.loads(json.dumps(doc))
    if mask_siblings:
        for r in d.get("results", []):
            for g in r.get("target_groups", []):
                if any(t.get("status") in ("error", "not_executable") for t in g.values()):
                    for t in g.values():
                        if not (t.get("status") == "error" and t.get("code") is not None) and t.get("status") in ("success", "error", "cancelled"):
                            t.clear()
                            t["status"] = "sibling-of-failure"

    d.pop("timestamp", None)
    if isinstance(d.get("out"), dict) and isinstance(d["out"].get("run"), dict):
        d["out"]["run"].pop("path", None)  # contains the slot id, which advances with every run
    for r in d.get("results", []):
        for g in r.get("target_groups", []):
            for t in g.values():
                t.pop("runtime_secs", None)
    return json.dumps(d, sort_keys=True)
