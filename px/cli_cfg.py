"""CLI slices for C17 (integrity of generated configs across every config-reading API) and
C18 (serialisation independence), and the end-to-end slice of C08 (stored logs through `run`)."""
import json
import os
import time
import traceback

import common
import scratch as sc
import p_hist


def cfg_value(n_targets, source=None, ports=None):
    v = {}
    if source:
        v["source"] = {"path": source}
    v["targets"] = [{"path": "pkg/t%04d" % i} for i in range(n_targets)]
    for i in range(1, n_targets, 3):
        v["targets"][i]["uses"] = ["pkg/t%04d" % (i - 1)]
    v["max_retained_runs"] = 3
    if ports:
        v["server"] = {"lock": {"port": ports[0]}, "log": {"port": ports[1]}}
    return v


APIS = [
    ("config show", ["config", "show"]),
    ("target show -g", ["target", "show", "-g"]),
    ("target render", ["target", "render"]),
    ("checkpoint update", ["checkpoint", "update"]),
    ("checkpoint show", ["checkpoint", "show"]),
    ("analyze", ["analyze", "--target-groups"]),
    ("run", ["run", "-c", "build"]),
    ("result show", ["result", "show"]),
    ("log show", ["log", "show", "--stdout", "--stderr"]),
    ("checkpoint delete", ["checkpoint", "delete"]),
    ("out delete", ["out", "delete", "--all"]),
]


def c17_task(n_targets):
    # [n, "binary-source"]: the source is a generator script (its output is what is piped to
    # `config generate`), and it is not valid UTF-8: a Latin-1 comment and a few raw bytes. monorail only
    # ever hashes the source, so this is as good a source as any.
    arg = n_targets
    binary_source = isinstance(n_targets, (list, tuple))
    if binary_source:
        n_targets = n_targets[0]
    s = sc.Scratch("c17cli")
    try:
        ports = (s.port(), s.port())
        src = cfg_value(n_targets, "Monorail.src.json", ports)
        # fields that are rarely set: sequences, per-target ignores, argmap / command directories and definitions,
        # explicit bind timeouts (the generated file has to carry all of them)
        src["sequences"] = {"ci": ["build", "test"]}
        src["server"]["lock"]["bind_timeout_ms"] = 1500
        src["targets"][0]["ignores"] = ["pkg/t0000/docs"]
        src["targets"][0]["argmaps"] = {"path": "monorail/argmap", "definitions": {"extra": {"path": "conf/extra.json"}}}
        if n_targets > 1:
            src["targets"][1]["commands"] = {"path": "monorail/cmd", "definitions": {"lint": {"path": "tools/lint.sh"}, "build": {}}}
        r = sc.Repo(s, "r", src["targets"], commands={"pkg/t0000": {"build": "x"}}, ports=False)
        os.unlink(r.path("Monorail.json"))
        src_text = json.dumps(src, indent=2)
        pre = b"#!/usr/bin/env python3\n# g\xe9n\xe9rateur de configuration \xff\xfe\x80\nCONFIG = r\"\"\"\n" if binary_source else b""

        def wsrc(text):
            r.write("Monorail.src.json", pre + text.encode())
        wsrc(src_text)
        gen = r.mr("-f", r.path("Monorail.json"), "config", "generate", stdin=src_text.encode())
        if gen.code != 0:
            return {"judged": 0, "v": [("generate-failed", "config generate failed: %s" % gen.err[:300], {"cli_c17": arg})]}
        # generate once more into the same path from a LONGER source first and then from the real one:
        # the output and lockfile of the earlier, longer generation must be replaced completely
        longer = dict(src)
        longer["sequences"] = {"padding-%03d" % i: ["build", "test"] for i in range(60)}
        longer_text = json.dumps(longer, indent=2)
        wsrc(longer_text)
        r.mr("-f", r.path("Monorail.json"), "config", "generate", stdin=longer_text.encode())
        wsrc(src_text)
        gen = r.mr("-f", r.path("Monorail.json"), "config", "generate", stdin=src_text.encode())
        if gen.code != 0:
            return {"judged": 0, "v": [("generate-failed", "second config generate failed: %s" % gen.err[:300], {"cli_c17": arg})]}
        r.commit("generated")
        files = {n: open(r.path(n), "rb").read() for n in ("Monorail.json", "Monorail.src.json", "Monorail.lock")}
        size = len(files["Monorail.json"])
        v = []
        judged = 0
        # untouched: every API succeeds (in an order in which each has what it needs)
        r.set_script("pkg/t0000", "build", ["out " + b"hello\n".hex(), "exit 0"])
        for name, argv in APIS:
            res = r.mr(*argv, env=r.trace_env())
            judged += 1
            if res.code != 0:
                v.append(("untouched-api-fails", "%s with untouched files (generated size %d%s): exit %s %s" % (name, size, ", source not valid UTF-8" if binary_source else "", res.code, res.err[:200])))
        # prepared state for the tamper runs: a checkpoint and a completed run exist
        r.mr("checkpoint", "update")
        r.mr("run", "-c", "build", env=r.trace_env())
        edits = []
        g = files["Monorail.json"]
        for label, off in (("first", 0), ("middle", size // 2), ("last", size - 1), ("at9000", 9000), ("at8192", 8192)):
            if off < size:
                b = bytearray(g)
                b[off] ^= 0x20 if chr(b[off]).isalpha() else 0x01
                edits.append(("generated:xor@%s" % label, "Monorail.json", bytes(b)))
        ws = g.find(b"\n  ") + 1
        edits.append(("generated:insert-space", "Monorail.json", g[:ws] + b" " + g[ws:]))
        edits.append(("generated:append", "Monorail.json", g + b"\n"))
        edits.append(("generated:truncate", "Monorail.json", g[:-1]))
        sfile = files["Monorail.src.json"]
        edits.append(("source:append", "Monorail.src.json", sfile + b" "))
        edits.append(("source:edit", "Monorail.src.json", sfile.replace(b'"max_retained_runs": 3', b'"max_retained_runs": 4')))
        edits.append(("source:edit+old-mtime", "Monorail.src.json", sfile.replace(b'"max_retained_runs": 3', b'"max_retained_runs": 5')))
        edits.append(("source:edit+touch-generated", "Monorail.src.json", sfile.replace(b'"max_retained_runs": 3', b'"max_retained_runs": 6')))
        lk = files["Monorail.lock"]
        pos = lk.find(b'":"') + 3
        edits.append(("lock:checksum-digit", "Monorail.lock", lk[:pos] + (b"0" if lk[pos:pos + 1] != b"0" else b"1") + lk[pos + 1:]))
        edits.append(("lock:checksum-prefix", "Monorail.lock", lk[:pos + 40] + lk[pos + 64:]))
        edits.append(("lock:checksum-empty", "Monorail.lock", lk[:pos] + lk[pos + 64:]))
        edits.append(("source:deleted", "Monorail.src.json", None))
        edits.append(("lock:deleted", "Monorail.lock", None))
        edits.append(("lock:empty", "Monorail.lock", b""))
        edits.append(("lock:other-checksum", "Monorail.lock", b'{"checksum":"' + b"0" * 64 + b'"}'))
        for ename, fname, data in edits:
            if data is None:
                os.unlink(r.path(fname))
            else:
                open(r.path(fname), "wb").write(data)
            if ename.endswith("old-mtime"):
                os.utime(r.path(fname), (1_000_000_000, 1_000_000_000))
            if ename.endswith("touch-generated"):
                os.utime(r.path(fname), (time.time() - 100, time.time() - 100))
                os.utime(r.path("Monorail.json"), None)
            before = sc.snapshot(r.dir, skip=(".git",))
            for name, argv in APIS:
                r.clear_traces()
                res = r.mr(*argv, env=r.trace_env())
                judged += 1
                after = sc.snapshot(r.dir, skip=(".git",))
                if res.code == 0:
                    v.append(("tampered-api-succeeds", "%s succeeded after %s (generated size %d)" % (name, ename, size)))
                if after != before:
                    diff = sorted(set(after.items()) ^ set(before.items()))[:3]
                    v.append(("tampered-api-acts", "%s after %s changed the repository/out dir: %s" % (name, ename, diff)))
                    before = after
                if r.traces():
                    v.append(("tampered-api-executes", "%s after %s started an executable" % (name, ename)))
            open(r.path(fname), "wb").write(files[fname])
        res = r.mr("analyze")
        judged += 1
        if res.code != 0:
            v.append(("restored-api-fails", "analyze after restoring every file: exit %s %s" % (res.code, res.err[:200])))
        # the documented remedy: after the generated file (or the lockfile) was damaged, generating again from the
        # unchanged source succeeds and leaves a configuration every API accepts
        mid = size // 2
        flipped = bytearray(g)
        flipped[mid] ^= 0x20 if chr(flipped[mid]).isalpha() else 0x01
        for ename, fname, data in (("generated:same-length edit", "Monorail.json", bytes(flipped)), ("generated:append", "Monorail.json", g + b"\n"),
                                   ("lock:other-checksum", "Monorail.lock", b'{"checksum":"' + b"0" * 64 + b'"}')):
            open(r.path(fname), "wb").write(data)
            gen = r.mr("-f", r.path("Monorail.json"), "config", "generate", stdin=src_text.encode())
            judged += 1
            ok = [r.mr(*argv).code for _, argv in (("config show", ["config", "show"]), ("analyze", ["analyze"]))]
            if gen.code != 0 or ok != [0, 0]:
                v.append(("regenerate-does-not-repair", "after %s, `config generate` from the unchanged source: exit %s; then config show / analyze exit %s (generated file %s the first generation)" % (
                    ename, gen.code, ok, "equals" if open(r.path("Monorail.json"), "rb").read() == g else "differs from")))
            for fn in ("Monorail.json", "Monorail.lock"):
                open(r.path(fn), "wb").write(files[fn])
        return {"judged": judged, "v": [(sig, d, {"cli_c17": arg}) for sig, d in v], "size": size}
    except common.EngineError as e:
        return {"engine_error": str(e)}
    except Exception:
        return {"engine_error": traceback.format_exc()[-1200:]}
    finally:
        s.cleanup()


def c17_regen_from_generated_task(_):
    """The source handed to `config generate` is itself a (hand-edited) copy of an earlier generated file,
    so it already carries `source.algorithm` and `source.checksum`. After generating from it nothing has
    been touched: every API succeeds; editing the source afterwards: every API fails."""
    s = sc.Scratch("c17regen")
    try:
        ports = (s.port(), s.port())
        src = cfg_value(3, "Monorail.src.json", ports)
        r = sc.Repo(s, "r", src["targets"], commands={"pkg/t0000": {"build": "x"}}, ports=False)
        os.unlink(r.path("Monorail.json"))
        src_text = json.dumps(src, indent=2)
        r.write("Monorail.src.json", src_text)
        f_arg = ["-f", r.path("Monorail.json")]
        if r.mr(*f_arg, "config", "generate", stdin=src_text.encode()).code != 0:
            return {"judged": 0, "v": []}
        gen_text = open(r.path("Monorail.json")).read()
        new_src = gen_text.replace('"max_retained_runs": 3', '"max_retained_runs": 7').replace('"max_retained_runs":3', '"max_retained_runs":7')
        r.write("Monorail.src.json", new_src)
        g2 = r.mr(*f_arg, "config", "generate", stdin=new_src.encode())
        if g2.code != 0:
            return {"judged": 1, "v": []}   # refusing such a source is fine; nothing to judge then
        v = []
        judged = 0
        apis = [a for a in APIS if a[0] in ("config show", "target show -g", "checkpoint update", "analyze", "run", "result show")]
        for name, argv in apis:
            res = r.mr(*argv, env=r.trace_env())
            judged += 1
            if res.code != 0:
                v.append(("untouched-api-fails", "[source is an edited copy of a generated file] %s with untouched files: exit %s %s" % (name, res.code, res.err[:200])))
        r.write("Monorail.src.json", new_src.replace('"max_retained_runs": 7', '"max_retained_runs": 8').replace('"max_retained_runs":7', '"max_retained_runs":8'))
        for name, argv in apis:
            res = r.mr(*argv, env=r.trace_env())
            judged += 1
            if res.code == 0:
                v.append(("tampered-api-succeeds", "[source is an edited copy of a generated file] %s succeeded after the source was edited again" % name))
        return {"judged": judged, "v": [(sig, d, {"cli_c17_regen": 1}) for sig, d in v], "size": 0}
    except common.EngineError as e:
        return {"engine_error": str(e)}
    except Exception:
        return {"engine_error": traceback.format_exc()[-1200:]}
    finally:
        s.cleanup()


def c17_names_task(fname):
    """The generated file is not called Monorail.json (two or more dots in its name; a sibling generated
    from the same source next to it): untouched -> every API succeeds; its own lockfile edited -> fails."""
    s = sc.Scratch("c17names")
    try:
        ports = (s.port(), s.port())
        src = cfg_value(3, "Monorail.src.json", ports)
        r = sc.Repo(s, "r", src["targets"], commands={"pkg/t0000": {"build": "x"}}, ports=False)
        os.unlink(r.path("Monorail.json"))
        src_text = json.dumps(src, indent=2)
        r.write("Monorail.src.json", src_text)
        stem = fname[:-len(".json")]
        sibling = stem.split(".")[0] + ".json"
        for f_ in (sibling, fname):
            g = r.mr("-f", r.path(f_), "config", "generate", stdin=src_text.encode())
            if g.code != 0:
                return {"judged": 0, "v": []}
        f_arg = ["-f", r.path(fname)]
        v = []
        judged = 0
        apis = [a for a in APIS if a[0] in ("config show", "target show -g", "checkpoint update", "analyze", "run", "result show")]
        for name, argv in apis:
            res = r.mr(*f_arg, *argv, env=r.trace_env())
            judged += 1
            if res.code != 0:
                v.append(("untouched-api-fails", "[generated file %s] %s with untouched files: exit %s %s" % (fname, name, res.code, res.err[:200])))
        lock = r.path(stem + ".lock")
        if os.path.exists(lock):
            lk = open(lock, "rb").read()
            pos = lk.find(b'":"') + 3
            open(lock, "wb").write(lk[:pos] + (b"0" if lk[pos:pos + 1] != b"0" else b"1") + lk[pos + 1:])
            for name, argv in apis:
                r.clear_traces()
                res = r.mr(*f_arg, *argv, env=r.trace_env())
                judged += 1
                if res.code == 0:
                    v.append(("tampered-api-succeeds", "[generated file %s] %s succeeded after a digit of the checksum in %s.lock was changed" % (fname, name, stem)))
        else:
            v.append(("untouched-api-fails", "[generated file %s] config generate wrote no %s.lock" % (fname, stem)))
        return {"judged": judged, "v": [(sig, d, {"cli_c17_names": fname}) for sig, d in v], "size": 0}
    except common.EngineError as e:
        return {"engine_error": str(e)}
    except Exception:
        return {"engine_error": traceback.format_exc()[-1200:]}
    finally:
        s.cleanup()


def c17_elsewhere_task(layout):
    """`config generate` and every later command are invoked from a directory other than the one that
    holds the generated file (`-f <abs>/Monorail.json`), with a relative `source.path`: the source that
    generate read is the one next to the invoking directory. Untouched -> every API succeeds; the
    source edited -> every API fails."""
    s = sc.Scratch("c17else")
    try:
        ports = (s.port(), s.port())
        src = cfg_value(3, "Monorail.src.json", ports)
        r = sc.Repo(s, "r", src["targets"], commands={"pkg/t0000": {"build": "x"}}, ports=False)
        os.unlink(r.path("Monorail.json"))
        cwd = r.path("conf") if layout == "subdir" else os.path.join(s.dir, "elsewhere")
        if layout.startswith("symlink"):
            # the configuration file at the repository root is a symbolic link into a directory of generated
            # files (not existing yet when generate runs / already there, empty); invoked from the root, no -f
            cwd = r.dir
            os.makedirs(r.path("gen"))
            if layout == "symlink-existing":
                open(r.path("gen/Monorail.json"), "w").close()
            os.symlink("gen/Monorail.json", r.path("Monorail.json"))
        os.makedirs(cwd, exist_ok=True)
        src_text = json.dumps(src, indent=2)
        with open(os.path.join(cwd, "Monorail.src.json"), "w") as f:
            f.write(src_text)
        f_arg = [] if layout.startswith("symlink") else ["-f", r.path("Monorail.json")]
        gen = r.mr(*f_arg, "config", "generate", stdin=src_text.encode(), cwd=cwd)
        if gen.code != 0:
            return {"judged": 0, "v": []}   # generating from elsewhere is refused: nothing to judge
        r.commit("generated")
        v = []
        judged = 0
        apis = [a for a in APIS if a[0] in ("config show", "target show -g", "checkpoint update", "analyze", "run", "result show")]
        for name, argv in apis:
            res = r.mr(*f_arg, *argv, env=r.trace_env(), cwd=cwd)
            judged += 1
            if res.code != 0:
                v.append(("untouched-api-fails", "[invoked from %s] %s with untouched files: exit %s %s" % (layout, name, res.code, res.err[:200])))
        with open(os.path.join(cwd, "Monorail.src.json"), "w") as f:
            f.write(src_text.replace('"max_retained_runs": 3', '"max_retained_runs": 4'))
        for name, argv in apis:
            r.clear_traces()
            res = r.mr(*f_arg, *argv, env=r.trace_env(), cwd=cwd)
            judged += 1
            if res.code == 0:
                v.append(("tampered-api-succeeds", "[invoked from %s] %s succeeded after the source was edited" % (layout, name)))
            if r.traces():
                v.append(("tampered-api-executes", "[invoked from %s] %s started an executable after the source was edited" % (layout, name)))
        return {"judged": judged, "v": [(sig, d, {"cli_c17_else": layout}) for sig, d in v], "size": 0}
    except common.EngineError as e:
        return {"engine_error": str(e)}
    except Exception:
        return {"engine_error": traceback.format_exc()[-1200:]}
    finally:
        s.cleanup()


def strip_ts(d):
    if isinstance(d, dict):
        return {k: strip_ts(v) for k, v in d.items() if k != "timestamp"}
    if isinstance(d, list):
        return [strip_ts(x) for x in d]
    return d


def deep_order(v, mode):
    """The same JSON value with the keys of every object, at every depth, sorted or reversed."""
    if isinstance(v, dict):
        keys = sorted(v) if mode == "sorted" else list(reversed(sorted(v))) if mode == "reverse-sorted" else list(reversed(list(v)))
        return {k: deep_order(v[k], mode) for k in keys}
    if isinstance(v, list):
        return [deep_order(x, mode) for x in v]
    return v


def c18_task(n_targets):
    s = sc.Scratch("c18cli")
    try:
        ports = (s.port(), s.port())
        val = cfg_value(n_targets, None, ports)
        val["out_dir"] = "build/mr-out"
        val["sequences"] = {"dev/all": ["build", "test"], "a/first": ["zeta"]}
        # objects with several keys below the top level, written in an order that is neither
        # ascending nor descending: command definitions with explicit paths outside the default directory
        t0, t1 = val["targets"][0], val["targets"][1]
        t0["commands"] = {"definitions": {"mid": {"path": "tools/t0/mid.sh"}, "zeta": {"path": "tools/t0/zeta.sh"}, "build": {"path": "tools/t0/build.sh"}}}
        t1["commands"] = {"path": "cmds", "definitions": {"build": {}, "zeta": {"path": "x/zeta-impl.sh"}, "alpha": {"path": "x/alpha.sh"}}}
        r = sc.Repo(s, "r", val["targets"], ports=False, init_git=False)
        for c_ in ("mid", "zeta", "build"):
            r.command_file(t0["path"], c_, "x", cmd_dir="tools/t0", name=c_ + ".sh")
        r.command_file(t1["path"], "build", "x", cmd_dir="cmds", name="build.sh")
        r.command_file(t1["path"], "zeta", "x", cmd_dir="x", name="zeta-impl.sh")
        r.command_file(t1["path"], "alpha", "x", cmd_dir="x", name="alpha.sh")
        compact = json.dumps(val, separators=(",", ":"))
        pretty = json.dumps(val, indent=2)
        rev = json.dumps({k: val[k] for k in reversed(list(val))}, indent=1)
        sers = [("compact", compact), ("pretty", pretty), ("reversed-keys", rev), ("crlf", pretty.replace("\n", "\r\n")), ("tabs", json.dumps(val, indent="\t"))]
        # every JSON whitespace character as line ending / separator padding (CR alone is legal whitespace)
        sers.append(("cr-only-line-endings", pretty.replace("\n", "\r")))
        sers.append(("cr-and-tab-separators", json.dumps(val, separators=(",\r\t", ":\r"))))
        sers.append(("deep-sorted-keys", json.dumps(deep_order(val, "sorted"), indent=1)))
        sers.append(("deep-reverse-sorted-keys", json.dumps(deep_order(val, "reverse-sorted"), separators=(",", ":"))))
        sers.append(("deep-reversed-keys", json.dumps(deep_order(val, "reversed"), indent=3)))
        # the same strings spelled with JSON escapes
        sers.append(("escaped-solidus", compact.replace("/", "\\/")))
        sers.append(("unicode-escapes", compact.replace("p", "\\u0070").replace("t", "\\u0074")))
        sers.append(("ensure-ascii-pretty", json.dumps(val, indent=2, ensure_ascii=True).replace("/", "\\/")))
        for lead in (1, 63, 64, 65, 100, 4096, 8192, 40000):
            sers.append(("lead%d-spaces" % lead, " " * lead + compact))
            sers.append(("lead%d-newlines" % lead, "\n" * lead + pretty))
            sers.append(("lead%d-mixed" % lead, (" \t\r\n" * lead)[:lead] + rev))
        for total in (8191, 8192, 8193, 16385, 65537, 200001):
            if len(compact) <= total:
                sers.append(("pad%d-end" % total, compact + " " * (total - len(compact))))
                sers.append(("pad%d-inside" % total, compact[:1] + " " * (total - len(compact)) + compact[1:]))
        ref = None
        v = []
        judged = 0
        for name, text in sers:
            r.write("Monorail.json", text)
            outs = []
            apis = [("config show", ["config", "show"]), ("analyze", ["analyze", "--target-groups"]), ("target show", ["target", "show", "-g"]),
                    ("target show -c", ["target", "show", "--commands"])]
            if len(text) < 20000 or name.startswith("pad200001"):
                # what is executed: every defined command of the two targets with definitions, by name
                apis.append(("run", ["run", "-c", "mid", "zeta", "build", "alpha", "-t", t0["path"], t1["path"]]))
            for api, argv in apis:
                if api == "run":
                    r.clear_traces()
                    res = r.mr(*argv, env=r.trace_env())
                else:
                    res = r.mr(*argv)
                judged += 1
                if res.code != 0:
                    v.append(("serialisation-rejected" + (":larger-than-io-buffer" if len(text) > 8192 else ""), "%s with serialisation %s (%d bytes): exit %s %s" % (api, name, len(text), res.code, res.err[:200])))
                    outs.append(None)
                elif api == "run":
                    d = strip_ts(res.json()) or {}
                    d.pop("out", None)
                    for cr in d.get("results", []):
                        flat = {}
                        for g in cr.get("target_groups", []):
                            for tn, tv in g.items():
                                tv.pop("runtime_secs", None)
                                flat[tn] = tv
                        # with -t the order of the one-target groups is unspecified (set iteration order)
                        cr["target_groups"] = flat
                    started = sorted((os.path.relpath(rec["cwd"], r.dir), os.path.relpath(rec["argv"][0], r.dir)) for rec in r.traces())
                    outs.append({"doc": d, "started": started})
                else:
                    outs.append(strip_ts(res.json()))
            if ref is None:
                ref = outs
            elif None not in outs and outs[:4] != ref[:4]:
                v.append(("serialisation-changes-output", "serialisation %s (%d bytes) changes API output" % (name, len(text))))
            elif None not in outs and len(outs) > 4 and outs[4] != ref[4]:
                v.append(("serialisation-changes-run", "serialisation %s (%d bytes): run started %s and reported %s; with serialisation compact it started %s and reported %s" % (
                    name, len(text), outs[4]["started"], json.dumps(outs[4]["doc"].get("results"))[:300], ref[4]["started"], json.dumps(ref[4]["doc"].get("results"))[:300])))
        # a `log tail` listener is started, THEN the file is re-serialised, then a run streams to that
        # listener: what the listener prints must not depend on which serialisation either of them read
        import subprocess, time
        r.set_script(t0["path"], "build", ["out " + b"hello from the run\n".hex(), "exit 0"], argv0=r.path("tools/t0/build.sh"))
        tail_seen = []
        for (n1, t1), (n2, t2) in ((sers[0], sers[0]), (sers[0], sers[1]), (sers[1], sers[0]), (sers[0], sers[-1])):
            r.write("Monorail.json", t1)
            tf = os.path.join(s.dir, "tail-%d.out" % len(tail_seen))
            with open(tf, "wb") as fh:
                lis = subprocess.Popen([common.MONORAIL, "log", "tail", "--stdout", "--stderr"], cwd=r.dir, env=s.env(), stdout=fh, stderr=subprocess.DEVNULL, start_new_session=True)
            s.popens.append(lis)
            t_end = time.time() + 10
            while not sc.port_listening(ports[1]):
                if lis.poll() is not None or time.time() > t_end:
                    raise common.EngineError("log tail did not start in the C18 slice")
                time.sleep(0.02)
            r.write("Monorail.json", t2)
            rr = r.mr("run", "-c", "build", "-t", t0["path"], env=r.trace_env())
            judged += 1
            t_end = time.time() + 5
            while b"hello from the run" not in open(tf, "rb").read() and time.time() < t_end:
                time.sleep(0.05)
            lis.kill()
            lis.wait()
            t_end = time.time() + 5
            while sc.port_listening(ports[1]) and time.time() < t_end:
                time.sleep(0.02)
            tail_seen.append((n1, n2, rr.code, open(tf, "rb").read().count(b"hello from the run")))
        if len({x[2:] for x in tail_seen}) != 1:
            v.append(("serialisation-changes-streaming", "listener started under one serialisation, run under another: (listener, run, run exit, lines streamed) = %s" % tail_seen))
        # the file is re-serialised (write to a temporary name, rename over it) by another process at the very
        # moment an invocation opens it: whichever of the two serialisations the invocation ends up reading,
        # it is a complete serialisation of the same value (fault injected with an LD_PRELOAD shim)
        cfg_path = r.path("Monorail.json")
        nxt_path = r.path("Monorail.next.json")
        pairs = [(sers[0], sers[-1]), (sers[-1], sers[0]), (sers[1], sers[0]), (sers[0], sers[1])]
        for (n1, t1), (n2, t2) in pairs:
            for ai, (api, argv) in enumerate((("config show", ["config", "show"]), ("analyze", ["analyze", "--target-groups"]), ("target show", ["target", "show", "-g"]))):
                r.write("Monorail.json", t1)
                r.write("Monorail.next.json", t2)
                res = r.mr(*argv, env={"LD_PRELOAD": common.SWAP_ON_OPEN_SO, "MRV_SWAP_TARGET": cfg_path, "MRV_SWAP_WITH": nxt_path})
                judged += 1
                swapped = not os.path.exists(nxt_path)
                if os.path.exists(nxt_path):
                    os.unlink(nxt_path)
                if not swapped:
                    continue   # the file was not opened under that name: nothing was injected
                if res.code != 0 or strip_ts(res.json()) != ref[ai]:
                    v.append(("serialisation-swap-changes-output", "%s while %s (%d bytes) is replaced by %s (%d bytes) at the moment of the open: exit %s %s" % (api, n1, len(t1), n2, len(t2), res.code, res.err[:200])))
        # the same value after the environment changed under it (every serialisation above has been
        # accepted once by now): a target directory loses its files, then disappears. Whatever each API
        # answers now - acceptance or rejection - must again be the same for every serialisation.
        import shutil
        victim = val["targets"][-1]["path"]
        for env_name in ("a target directory emptied", "a target directory removed"):
            d = r.path(victim)
            if env_name.endswith("emptied"):
                shutil.rmtree(d, ignore_errors=True)
                os.makedirs(d)
            else:
                shutil.rmtree(d, ignore_errors=True)
            ref2 = None
            subset = [sers[-1], sers[0], sers[1], sers[2], sers[8], sers[-2]]
            for name, text in subset:
                r.write("Monorail.json", text)
                outs = []
                for api, argv in (("config show", ["config", "show"]), ("analyze", ["analyze", "--target-groups"]), ("target show", ["target", "show", "-g"])):
                    res = r.mr(*argv)
                    judged += 1
                    outs.append((res.code, strip_ts(res.json()) if res.code == 0 else strip_ts(res.err_json())))
                if ref2 is None:
                    ref2 = (name, outs)
                elif outs != ref2[1]:
                    v.append(("serialisation-changes-acceptance", "after %s: serialisation %s gives %s, serialisation %s gives %s" % (env_name, ref2[0], [o[0] for o in ref2[1]], name, [o[0] for o in outs])))
        return {"judged": judged, "v": [(sig, d, {"cli_c18": n_targets}) for sig, d in v]}
    except common.EngineError as e:
        return {"engine_error": str(e)}
    except Exception:
        return {"engine_error": traceback.format_exc()[-1200:]}
    finally:
        s.cleanup()


# ------------------------------------------------------------------------------------------ C08 e2e

def c08_scripts(tier):
    """(name, per-stream protocol lines, expected bytes) for stdout; stderr mirrors with a prefix."""
    def h(b):
        return b.hex()
    S = []
    S.append(("two-lines", ["out " + h(b"line one\nline two\n")], b"line one\nline two\n"))
    S.append(("split-line-across-tick", ["out " + h(b"AAA"), "sleep 750", "out " + h(b"BBB\n")], b"AAABBB\n"))
    S.append(("no-final-newline", ["out " + h(b"first\nlast without newline")], b"first\nlast without newline"))
    S.append(("partial-then-tick-then-eof", ["out " + h(b"tail"), "sleep 750"], b"tail"))
    S.append(("binary", ["out " + h(bytes([0xff, 0x00, 0xfe, 0x0a, 0x80, 0x0a]))], bytes([0xff, 0x00, 0xfe, 0x0a, 0x80, 0x0a])))
    S.append(("long-line", ["outrep 5000 " + h(b"0123456789"), "out " + h(b"\n")], b"0123456789" * 5000 + b"\n"))
    S.append(("long-line-across-tick", ["outrep 3000 " + h(b"abcdefghij"), "sleep 750", "outrep 3000 " + h(b"ABCDEFGHIJ"), "out " + h(b"\n")], b"abcdefghij" * 3000 + b"ABCDEFGHIJ" * 3000 + b"\n"))
    S.append(("many-lines", ["outrep 20000 " + h(b"x\n")], b"x\n" * 20000))
    S.append(("empty-lines", ["out " + h(b"\n\n\n")], b"\n\n\n"))
    S.append(("pauses-between-lines", ["out " + h(b"a\n"), "sleep 750", "out " + h(b"b\n"), "sleep 750", "out " + h(b"c\n")], b"a\nb\nc\n"))
    S.append(("empty", [], b""))
    nvol = 20000 if tier == "quick" else 100000  # the debug-profile binary is superlinear in lines per flush
    S.append(("volume", ["outrep %d " % nvol + h(b"0123456789abcdef\n")], b"0123456789abcdef\n" * nvol))
    # incompressible output (pseudo-random bytes as 64-byte lines, and as one long line)
    import random
    rnd = random.Random(12345)
    dense = b"".join(bytes(rnd.randrange(32, 127) for _ in range(63)) + b"\n" for _ in range(5000))
    S.append(("dense-lines", ["out " + h(dense)], dense))
    blob = bytes(rnd.randrange(32, 127) for _ in range(400000)) + b"\n"
    S.append(("dense-long-line", ["out " + h(blob)], blob))
    # one burst mixing many short lines with a very long one (short lines before and after it), at sizes
    # around 64 KiB and counts around 128
    def mixed(nshort, longlen, after):
        return b"".join(b"short line %04d\n" % i for i in range(nshort)) + b"L" * (longlen - 1) + b"\n" + b"".join(b"after %d\n" % i for i in range(after))
    for nshort, longlen, after in ((300, 100000, 5), (127, 65536, 1), (128, 65535, 0), (129, 65537, 2), (1000, 200000, 300)):
        m = mixed(nshort, longlen, after)
        S.append(("mixed-burst-%d-%d-%d" % (nshort, longlen, after), ["out " + h(m)], m))
    if tier != "quick":
        S.append(("three-ticks-inside-line", ["out " + h(b"p"), "sleep 600", "out " + h(b"q"), "sleep 600", "out " + h(b"r"), "sleep 600", "out " + h(b"s\n")], b"pqrs\n"))
        S.append(("crlf", ["out " + h(b"a\r\nb\r\n")], b"a\r\nb\r\n"))
    return S


def c08_task(arg):
    name, lines, expect, ntargets = arg[:4]
    listener = arg[4] if len(arg) > 4 else None
    s = sc.Scratch("c08e2e")
    lis = None
    case = {"cli_c08": [name, ntargets] + ([listener] if listener else [])}
    try:
        ts = [{"path": "t%d" % i} for i in range(ntargets)]
        r = sc.Repo(s, "r", ts, commands={t["path"]: {"build": "x"} for t in ts}, init_git=False)
        want = {}
        for i, t in enumerate(ts):
            tag = ("<%s>" % t["path"]).encode()
            # stdout carries the script, stderr the same script shifted by a per-target tag line
            out_lines = list(lines)
            err_lines = ["err " + (tag + b"\n").hex()] + [l.replace("out ", "err ", 1).replace("outrep ", "errrep ", 1) if l.startswith("out") else l for l in lines]
            merged = ["out " + (tag + b"\n").hex()]
            for a, b in zip(out_lines, err_lines[1:]):
                merged.append(a)
                if not a.startswith("sleep"):
                    merged.append(b)
            r.set_script(t["path"], "build", [err_lines[0]] + merged + ["exit 0"])
            want[("stdout.zst", t["path"])] = tag + b"\n" + expect
            want[("stderr.zst", t["path"])] = tag + b"\n" + expect
        if listener:
            # a `log tail` listener whose filters select (some of) the streams is attached for the whole
            # run: what is stored must still be exactly what was written
            import subprocess, time
            lf = open(os.path.join(s.dir, "tail.out"), "wb")
            lis = subprocess.Popen([common.MONORAIL, "log", "tail"] + listener, cwd=r.dir, env=s.env(), stdout=lf,
                                   stderr=subprocess.STDOUT, start_new_session=True)
            s.popens.append(lis)
            lf.close()
            deadline = time.time() + 10
            while True:
                if sc.port_listening(r.log_port):
                    break
                if lis.poll() is not None or time.time() > deadline:
                    return {"engine_error": "log tail did not start for the C08 slice"}
                time.sleep(0.02)
        res = r.mr("run", "-c", "build", env=r.trace_env(), timeout=120)
        doc = res.json()
        v = []
        if lis is not None and lis.poll() is not None:
            return {"engine_error": "log tail exited during the C08 slice run (%s)" % lis.returncode}
        if res.code != 0 or doc is None:
            return {"judged": 1, "v": [("e2e-run-failed", "script %s: exit %s %s" % (name, res.code, res.err[:200]), case)]}
        for (f, t), w in want.items():
            p = os.path.join(doc["out"]["run"]["path"], "build", doc["out"]["run"]["targets"][t], f)
            try:
                got = sc.zstd_cat(p)
            except Exception as e:
                got = None
                v.append(("e2e-undecodable", "script %s %s of %s: %s" % (name, f, t, e)))
            if got is not None and got != w:
                v.append(("e2e-bytes-differ", "script %s %s of %s: stored %d bytes (%r...), written %d bytes (%r...)" % (name, f, t, len(got), got[:40], len(w), w[:40])))
        # log show: one header per non-empty log followed by its bytes
        ls = r.mr("log", "show", "--stdout", "--stderr")
        blocks = p_hist.parse_log_show(ls.out)
        exp_blocks = sorted((f, t, "build", w) for (f, t), w in want.items() if w)
        if expect.endswith(b"\n") or not expect:
            if ls.code != 0 or blocks != exp_blocks:
                v.append(("e2e-log-show-differs", "script %s: log show blocks %s, expected %s" % (name, [(b[0], b[1], len(b[3])) for b in blocks], [(b[0], b[1], len(b[3])) for b in exp_blocks])))
        if listener:
            v = [(sig, d + " [log tail %s attached]" % " ".join(listener)) for sig, d in v]
        return {"judged": 1, "v": [(sig, d, case) for sig, d in v]}
    except common.EngineError as e:
        return {"engine_error": str(e)}
    except Exception:
        return {"engine_error": traceback.format_exc()[-1200:]}
    finally:
        s.cleanup()


def c08_repeat_task(arg):
    """The same command listed twice in one run: the second execution's (shorter) output replaces the
    first one's log; the stored log must be exactly the second execution's bytes."""
    how, ntargets = arg
    s = sc.Scratch("c08rep")
    try:
        ts = [{"path": "t%d" % i} for i in range(ntargets)]
        extra = {"sequences": {"twice": ["build", "build"], "mix": ["build", "test", "build"]}}
        r = sc.Repo(s, "r", ts, commands={t["path"]: {"build": "x", "test": "x"} for t in ts}, init_git=False, cfg_extra=extra,
                    max_retained_runs=1 if how == "slot reuse" else None)
        long_out = b"".join(b"first execution line %04d of a long log\n" % i for i in range(400))
        short_out = b"second execution: one short line\n"
        for t in ts:
            r.set_script(t["path"], "build", ["out " + long_out.hex(), "err " + long_out.hex(), "exit 0"], nth=1)
            r.set_script(t["path"], "build", ["out " + short_out.hex(), "err " + short_out.hex(), "exit 0"], nth=2)
            r.set_script(t["path"], "test", ["out " + b"test\n".hex(), "exit 0"])
        args = {"-c twice": ["run", "-c", "build", "build"], "sequence twice": ["run", "-s", "twice"], "sequence mix": ["run", "-s", "mix"],
                "sequence plus -c": ["run", "-s", "twice"], "slot reuse": ["run", "-c", "build"]}[how]
        if how == "slot reuse":
            # two separate runs with max_retained_runs = 1: the second run reuses the slot that still
            # holds the first run's longer logs
            first = r.mr(*args, env=r.trace_env())
            if first.code != 0:
                return {"judged": 1, "v": [("e2e-run-failed", "%s: first run exit %s %s" % (how, first.code, first.err[:200]), {"cli_c08_repeat": [how, ntargets]})]}
        res = r.mr(*args, env=r.trace_env())
        doc = res.json()
        v = []
        if res.code != 0 or doc is None:
            return {"judged": 1, "v": [("e2e-run-failed", "%s: exit %s %s" % (how, res.code, res.err[:200]), {"cli_c08_repeat": [how, ntargets]})]}
        for t in ts:
            for f in ("stdout.zst", "stderr.zst"):
                p = os.path.join(doc["out"]["run"]["path"], "build", doc["out"]["run"]["targets"][t["path"]], f)
                try:
                    got = sc.zstd_cat(p)
                except Exception as e:
                    v.append(("e2e-undecodable", "%s: %s of %s after the command ran twice: %s" % (how, f, t["path"], str(e)[:150])))
                    continue
                if got != short_out:
                    v.append(("e2e-bytes-differ", "%s: %s of %s holds %d bytes, the last execution wrote %d" % (how, f, t["path"], len(got), len(short_out))))
        ls = r.mr("log", "show", "--stdout", "--stderr", "-c", "build")
        if ls.code != 0:
            v.append(("e2e-log-show-fails", "%s: log show exit %s %s" % (how, ls.code, ls.err[:150])))
        return {"judged": 1, "v": [(sig, d, {"cli_c08_repeat": [how, ntargets]}) for sig, d in v]}
    except common.EngineError as e:
        return {"engine_error": str(e)}
    except Exception:
        return {"engine_error": traceback.format_exc()[-1200:]}
    finally:
        s.cleanup()


def c08_latest_task(arg):
    """`log show` without --id after every one of a series of runs in one output directory (more runs than
    are retained, so that the numbering wraps): it prints the logs of the run that just ended - its
    tasks, its bytes - and nothing of an older one. Commands alternate so that an older run's logs
    would show tasks the latest run never had."""
    retained, nruns = arg
    s = sc.Scratch("c08latest")
    try:
        ts = [{"path": "t0"}, {"path": "t1"}]
        r = sc.Repo(s, "r", ts, commands={t["path"]: {"build": "x", "test": "x"} for t in ts}, init_git=False, max_retained_runs=retained)
        v = []
        judged = 0
        for i in range(1, nruns + 1):
            cmd = "test" if i % 3 == 0 else "build"
            want = {}
            for t in ("t0", "t1"):
                so = ("run %d: %s %s stdout\n" % (i, t, cmd)).encode() * (1 + (nruns - i) * 3)   # later runs write less
                se = ("run %d: %s %s stderr\n" % (i, t, cmd)).encode()
                r.set_script(t, cmd, ["out " + so.hex(), "err " + se.hex(), "exit 0"])
                want[("stdout.zst", t, cmd)] = so
                want[("stderr.zst", t, cmd)] = se
            res = r.mr("run", "-c", cmd, env=r.trace_env())
            if res.code != 0 or res.json() is None:
                return {"judged": judged + 1, "v": [("e2e-run-failed", "run %d of %d (max_retained_runs %s): exit %s %s" % (i, nruns, retained, res.code, res.err[:200]), {"cli_c08_latest": list(arg)})]}
            for args in (["--stdout", "--stderr"], ["--stdout"]):
                ls = r.mr("log", "show", *args)
                judged += 1
                got = p_hist.parse_log_show(ls.out)
                exp = sorted((f, t, c, b) for (f, t, c), b in want.items() if ("--" + f.split(".")[0]) in args)
                if ls.code != 0 or got != exp:
                    v.append(("e2e-log-show-not-latest", "after run %d of a series (max_retained_runs %s) log show %s prints %s, the run wrote %s (exit %s)" % (
                        i, retained, " ".join(args), [(b[0], b[1], b[2], b[3][:12]) for b in got], [(b[0], b[1], b[2], b[3][:12]) for b in exp], ls.code)))
            if v:
                break
        return {"judged": judged, "v": [(sig, d, {"cli_c08_latest": list(arg)}) for sig, d in v[:3]]}
    except common.EngineError as e:
        return {"engine_error": str(e)}
    except Exception:
        return {"engine_error": traceback.format_exc()[-1200:]}
    finally:
        s.cleanup()


def c08_big_show_task(arg):
    """`log show` over a run whose stored logs are large and hardly compressible (12 tasks x 2 streams x
    ~0.7 MiB of pseudo-random bytes, each ending in a newline): every header is followed by exactly its
    own log's bytes. Repeated, since whatever `log show` does internally with that much data may vary."""
    ntargets, nbytes, reps = arg
    s = sc.Scratch("c08big")
    try:
        import random
        ts = [{"path": "t%02d" % i} for i in range(ntargets)]
        r = sc.Repo(s, "r", ts, commands={t["path"]: {"build": "x"} for t in ts}, init_git=False)
        want = {}
        for i, t in enumerate(ts):
            rnd = random.Random(1000 + i)
            so = rnd.randbytes(nbytes).replace(b"[monorail", b"[MONORAIL") + b"\n"
            se = rnd.randbytes(nbytes // 2).replace(b"[monorail", b"[MONORAIL") + b"\n"
            r.set_script(t["path"], "build", ["out " + so.hex(), "err " + se.hex(), "exit 0"])
            want[("stdout.zst", t["path"], "build")] = so
            want[("stderr.zst", t["path"], "build")] = se
        res = r.mr("run", "-c", "build", env=r.trace_env(), timeout=300)
        if res.code != 0 or res.json() is None:
            return {"judged": 1, "v": [("e2e-run-failed", "large logs: exit %s %s" % (res.code, res.err[:200]), {"cli_c08_big": list(arg)})]}
        v = []
        judged = 0
        exp = sorted((f, t, c, b) for (f, t, c), b in want.items())
        for rep in range(reps):
            ls = r.mr("log", "show", "--stdout", "--stderr", timeout=300)
            judged += 1
            got = p_hist.parse_log_show(ls.out)
            if ls.code != 0 or got != exp:
                bad = [(g[0], g[1], len(g[3])) for g in got if g not in exp][:4]
                v.append(("e2e-log-show-differs", "log show over %d logs of %d / %d hardly compressible bytes (invocation %d): exit %s, %d blocks (expected %d); first blocks that are not a header followed by exactly its log: %s" % (
                    2 * ntargets, nbytes, nbytes // 2, rep + 1, ls.code, len(got), len(exp), bad)))
                break
        return {"judged": judged, "v": [(sig, d, {"cli_c08_big": list(arg)}) for sig, d in v]}
    except common.EngineError as e:
        return {"engine_error": str(e)}
    except Exception:
        return {"engine_error": traceback.format_exc()[-1200:]}
    finally:
        s.cleanup()


def c18_generate_pipe_task(total):
    """`config generate` reads the source configuration from a pipe. The same value, compact and padded
    with whitespace inside to `total` bytes, is handed over the way a slow generator would: the first 4 KiB, a
    pause, then the rest. Accepted either both times or never, and the generated file and lockfile are the same."""
    import subprocess
    s = sc.Scratch("c18pipe")
    try:
        ports = (s.port(), s.port())
        val = cfg_value(4, "Monorail.src.json", ports)
        r = sc.Repo(s, "r", val["targets"], ports=False, init_git=False)
        os.unlink(r.path("Monorail.json"))
        compact = json.dumps(val, separators=(",", ":"))
        r.write("Monorail.src.json", compact)   # the source that is hashed stays the same for both deliveries
        pad = max(0, total - len(compact))
        cut = compact.index('"targets"')
        padded = compact[:cut] + " \n" * (pad // 2) + compact[cut:]
        outs = []
        for name, text in (("compact", compact), ("padded to %d bytes" % len(padded), padded)):
            for f in ("Monorail.json", "Monorail.lock"):
                if os.path.exists(r.path(f)):
                    os.unlink(r.path(f))
            p = subprocess.Popen([common.MONORAIL, "-f", r.path("Monorail.json"), "config", "generate"], cwd=r.dir, env=s.env(),
                                 stdin=subprocess.PIPE, stdout=subprocess.PIPE, stderr=subprocess.PIPE)
            data = text.encode()
            try:
                p.stdin.write(data[:4096])
                p.stdin.flush()
                time.sleep(0.4)
                p.stdin.write(data[4096:])
                p.stdin.close()
            except BrokenPipeError:
                pass
            try:
                so, se = p.stdout.read(), p.stderr.read()
                p.wait(timeout=60)
            except subprocess.TimeoutExpired:
                p.kill()
                return {"engine_error": "config generate did not end"}
            gen = open(r.path("Monorail.json"), "rb").read() if os.path.exists(r.path("Monorail.json")) else None
            lock = open(r.path("Monorail.lock"), "rb").read() if os.path.exists(r.path("Monorail.lock")) else None
            outs.append((name, p.returncode, gen, lock, se[:200]))
        v = []
        a, b = outs
        if (a[1], a[2], a[3]) != (b[1], b[2], b[3]):
            v.append(("serialisation-changes-output", "config generate, source delivered through a pipe in two pieces: %s -> exit %s, generated %s bytes; %s -> exit %s, generated %s bytes %s" % (
                a[0], a[1], a[2] and len(a[2]), b[0], b[1], b[2] and len(b[2]), b[4])))
        return {"judged": 2, "v": [(sig, d, {"cli_c18_pipe": total}) for sig, d in v]}
    except common.EngineError as e:
        return {"engine_error": str(e)}
    except Exception:
        return {"engine_error": traceback.format_exc()[-1200:]}
    finally:
        s.cleanup()


def c08_show_filters_task(_):
    """`log show` with every combination of stream flags, target filter and command filter on one stored
    run (2 targets x 3 commands - one of them named `build.release`, a name with a dot that shares its stem with `build` - one stream of one task empty): one header per selected non-empty log
    followed by its bytes, nothing else."""
    import itertools
    s = sc.Scratch("c08show")
    try:
        ts = [{"path": "t0"}, {"path": "t1"}]
        r = sc.Repo(s, "r", ts, commands={t["path"]: {"build": "x", "test": "x", "build.release": "x"} for t in ts}, init_git=False)
        want = {}
        for t in ("t0", "t1"):
            for c in ("build", "test", "build.release"):
                # (coloured output: what the task wrote is what is printed, whatever the terminal settings of `log show`)
                so = ("%s %s stdout line\n\x1b[1;31msecond\x1b[0m\n" % (t, c)).encode()
                se = b"" if (t, c) == ("t1", "test") else ("\x1b[33m%s %s stderr\x1b[m\n" % (t, c)).encode()
                lines = ["out " + so.hex()] + (["err " + se.hex()] if se else []) + ["exit 0"]
                r.set_script(t, c, lines)
                want[("stdout.zst", t, c)] = so
                want[("stderr.zst", t, c)] = se
        res = r.mr("run", "-c", "build", "test", "build.release", env=r.trace_env())
        if res.code != 0:
            return {"judged": 1, "v": [("e2e-run-failed", "exit %s %s" % (res.code, res.err[:200]), {"cli_c08_show": 1})]}
        v = []
        judged = 0
        for streams in (["--stdout"], ["--stderr"], ["--stdout", "--stderr"]):
            for tf in ([], ["t0"], ["t1"], ["t0", "t1"]):
                for cf in ([], ["build"], ["test"], ["build", "test"], ["build.release"], ["build", "build.release"]):
                    args = ["log", "show"] + streams + (["-t"] + tf if tf else []) + (["-c"] + cf if cf else [])
                    ls = r.mr(*args)
                    judged += 1
                    got = p_hist.parse_log_show(ls.out)
                    exp = sorted((f, t, c, b) for (f, t, c), b in want.items() if b
                                 and ((f == "stdout.zst" and "--stdout" in streams) or (f == "stderr.zst" and "--stderr" in streams))
                                 and (not tf or t in tf) and (not cf or c in cf))
                    if ls.code != 0 or got != exp:
                        v.append(("e2e-log-show-filter", "%s: blocks %s, expected %s (exit %s)" % (" ".join(args), [(b[0], b[1], b[2], len(b[3])) for b in got], [(b[0], b[1], b[2], len(b[3])) for b in exp], ls.code)))
        # the environment of the `log show` process itself: colour conventions, a dumb terminal, no terminal at all
        exp_all = sorted((f, t, c, b) for (f, t, c), b in want.items() if b)
        for envx in ({"NO_COLOR": "1"}, {"NO_COLOR": "1", "TERM": "dumb", "CLICOLOR": "0"}, {"CLICOLOR_FORCE": "1", "FORCE_COLOR": "1", "TERM": "xterm-256color"}, {"TERM": ""}):
            ls = r.mr("log", "show", "--stdout", "--stderr", env=envx)
            judged += 1
            got = p_hist.parse_log_show(ls.out)
            if ls.code != 0 or got != exp_all:
                v.append(("e2e-log-show-differs", "log show with %s in its environment: blocks %s, expected %s (exit %s)" % (envx, [(b[0], b[1], b[2], b[3][:40]) for b in got][:4], [(b[0], b[1], b[2], b[3][:40]) for b in exp_all][:4], ls.code)))
        return {"judged": judged, "v": [(sig, d, {"cli_c08_show": 1}) for sig, d in v[:5]]}
    except common.EngineError as e:
        return {"engine_error": str(e)}
    except Exception:
        return {"engine_error": traceback.format_exc()[-1200:]}
    finally:
        s.cleanup()


def c08_tiny_task(_):
    """Very small logs (0..6 bytes per stream, newline-terminated): stored exactly, and `log show` prints
    one header per non-empty log followed by its bytes."""
    s = sc.Scratch("c08tiny")
    try:
        sizes = [0, 1, 2, 3, 4, 5, 6]
        ts = [{"path": "t%d" % i} for i in range(len(sizes))]
        r = sc.Repo(s, "r", ts, commands={t["path"]: {"build": "x"} for t in ts}, init_git=False)
        want = {}
        for i, t in enumerate(ts):
            so = ("abcdefgh"[:max(0, sizes[i] - 1)] + "\n").encode() if sizes[i] else b""
            k = sizes[(i + 3) % len(sizes)]
            se = ("ABCDEFGH"[:max(0, k - 1)] + "\n").encode() if k else b""
            lines = (["out " + so.hex()] if so else []) + (["err " + se.hex()] if se else []) + ["exit 0"]
            r.set_script(t["path"], "build", lines)
            want[("stdout.zst", t["path"], "build")] = so
            want[("stderr.zst", t["path"], "build")] = se
        res = r.mr("run", "-c", "build", env=r.trace_env())
        doc = res.json()
        if res.code != 0 or doc is None:
            return {"judged": 1, "v": [("e2e-run-failed", "tiny logs: exit %s %s" % (res.code, res.err[:200]), {"cli_c08_tiny": 1})]}
        v = []
        for (f, t, c), w in want.items():
            p_ = os.path.join(doc["out"]["run"]["path"], c, doc["out"]["run"]["targets"][t], f)
            try:
                got = sc.zstd_cat(p_)
            except Exception as e:
                v.append(("e2e-undecodable", "tiny log %s of %s: %s" % (f, t, str(e)[:120])))
                continue
            if got != w:
                v.append(("e2e-bytes-differ", "tiny log %s of %s: stored %r, written %r" % (f, t, got, w)))
        judged = 1
        for args in (["--stdout", "--stderr"], ["--stdout"], ["--stderr"]):
            ls = r.mr("log", "show", *args)
            judged += 1
            got = p_hist.parse_log_show(ls.out)
            exp = sorted((f, t, c, b) for (f, t, c), b in want.items() if b and ("--" + f.split(".")[0]) in args)
            if ls.code != 0 or got != exp:
                v.append(("e2e-log-show-differs", "log show %s over logs of 0..6 bytes: blocks %s, expected %s (exit %s)" % (" ".join(args), [(b[0], b[1], b[3]) for b in got], [(b[0], b[1], b[3]) for b in exp], ls.code)))
        return {"judged": judged, "v": [(sig, d, {"cli_c08_tiny": 1}) for sig, d in v]}
    except common.EngineError as e:
        return {"engine_error": str(e)}
    except Exception:
        return {"engine_error": traceback.format_exc()[-1200:]}
    finally:
        s.cleanup()


def c18_defaults_task(which):
    """Configurations that leave optional members out (one server port given, the other left to its
    default; a timeout given on one side only; an empty `server`): the same value with the members of
    every object in sorted, reverse-sorted and reversed order gives the same `config show` (which
    prints every default filled in), the same groups and the same analysis."""
    s = sc.Scratch("c18def")
    try:
        port = s.port()
        servers = {
            "lock-port-only": {"lock": {"port": port}, "log": {}},
            "log-port-only": {"lock": {}, "log": {"port": port}},
            "lock-port-log-host": {"lock": {"port": port, "host": "127.0.0.1"}, "log": {"host": "127.0.0.1"}},
            "lock-timeout-only": {"lock": {"bind_timeout_ms": 1234}, "log": {}},
            "empty-server": {},
        }
        val = {"targets": [{"path": "a"}, {"uses": ["a"], "path": "b"}], "server": servers[which], "max_retained_runs": 4}
        r = sc.Repo(s, "r", val["targets"], ports=False, init_git=False)
        sers = [("as-written", json.dumps(val)), ("deep-sorted-keys", json.dumps(deep_order(val, "sorted"), indent=1)),
                ("deep-reverse-sorted-keys", json.dumps(deep_order(val, "reverse-sorted"))), ("deep-reversed-keys", json.dumps(deep_order(val, "reversed"), indent=2))]
        v = []
        judged = 0
        ref = None
        for name, text in sers:
            r.write("Monorail.json", text)
            outs = []
            for api, argv in (("config show", ["config", "show"]), ("target show -g", ["target", "show", "-g"]), ("analyze", ["analyze", "--target-groups"])):
                res = r.mr(*argv)
                judged += 1
                outs.append((res.code, strip_ts(res.json())))
            if ref is None:
                ref = outs
            elif outs != ref:
                i = [k for k in range(len(outs)) if outs[k] != ref[k]][0]
                v.append(("serialisation-changes-output", "server = %s written %s: %s prints %s, as written first it printed %s" % (
                    json.dumps(servers[which]), name, ("config show", "target show -g", "analyze")[i], json.dumps(outs[i])[:300], json.dumps(ref[i])[:300])))
        return {"judged": judged, "v": [(sig, d, {"cli_c18_defaults": which}) for sig, d in v[:3]]}
    except common.EngineError as e:
        return {"engine_error": str(e)}
    except Exception:
        return {"engine_error": traceback.format_exc()[-1200:]}
    finally:
        s.cleanup()


def c18_slow_load_task(mib):
    """A serialisation so large that loading it takes longer than the configured bind timeouts (host names
    instead of addresses, bind_timeout_ms 300, `mib` MiB of whitespace): the lock-taking APIs behave as with the
    compact form. A difference counts only if it shows three times out of three (time-outs can be spurious)."""
    s = sc.Scratch("c18slow")
    try:
        ports = (s.port(), s.port())
        val = cfg_value(2, None, ports)
        val["server"]["lock"].update({"host": "localhost", "bind_timeout_ms": 300})
        val["server"]["log"].update({"host": "localhost", "bind_timeout_ms": 300})
        r = sc.Repo(s, "r", val["targets"], commands={val["targets"][0]["path"]: {"build": "x"}}, ports=False)
        compact = json.dumps(val, separators=(",", ":"))
        cut = compact.index('"targets"')
        forms = {"compact": compact, "padded with %d MiB of whitespace" % mib: None}
        v = []
        judged = 0

        def write(name):
            if forms[name] is not None:
                r.write("Monorail.json", forms[name])
            else:
                with open(r.path("Monorail.json"), "w") as f:
                    f.write(compact[:cut])
                    chunk = " \n" * (512 * 1024 // 2)
                    for _ in range(mib * 2):
                        f.write(chunk)
                    f.write(compact[cut:])

        def observe():
            out = []
            for argv in (["checkpoint", "update"], ["run", "-c", "build", "-t", val["targets"][0]["path"]], ["checkpoint", "delete"], ["out", "delete", "--all"]):
                res = r.mr(*argv, env=r.trace_env(), timeout=300)
                out.append((" ".join(argv[:2]), res.code, (res.err_json() or {}).get("message", "")[:80] if res.code else ""))
            return out
        r.git("update-index", "--assume-unchanged", "Monorail.json")
        obs = {}
        for rep in range(3):
            for name in forms:
                write(name)
                obs.setdefault(name, []).append(observe())
                judged += 4
            a, b = [obs[n][-1] for n in forms]
            if [x[:2] for x in a] == [x[:2] for x in b]:
                break
        else:
            names = list(forms)
            v.append(("serialisation-changes-output", "server hosts given by name, bind_timeout_ms 300; three times out of three: %s -> %s; %s -> %s" % (names[0], obs[names[0]][-1], names[1], obs[names[1]][-1])))
        return {"judged": judged, "v": [(sig, d, {"cli_c18_slow": mib}) for sig, d in v]}
    except common.EngineError as e:
        return {"engine_error": str(e)}
    except Exception:
        return {"engine_error": traceback.format_exc()[-1200:]}
    finally:
        s.cleanup()


def c18_port0_task(_):
    """`server.lock.port: 0` (whatever an implementation makes of it): while a run of the repository is in
    progress, `checkpoint update` is tried once per serialisation of the same configuration value - as written,
    pretty-printed with reversed keys, with a trailing newline, padded. How it ends must be the same every time."""
    import ctl as ctlmod
    s = sc.Scratch("c18p0")
    try:
        ts = [{"path": "a"}, {"path": "b"}]
        r = sc.Repo(s, "r", ts, commands={"a": {"build": "x"}, "b": {"build": "x"}})
        r.cfg["server"]["lock"]["port"] = 0
        r.write_cfg()
        r.git("update-index", "--assume-unchanged", "Monorail.json")
        val = r.cfg
        compact = json.dumps(val, separators=(",", ":"))
        sers = [("as written", open(r.path("Monorail.json")).read()), ("compact", compact), ("compact plus a trailing newline", compact + "\n"),
                ("pretty, keys reversed", json.dumps(deep_order(val, "reversed"), indent=2)), ("padded to 70000 bytes", compact[:1] + " " * (70000 - len(compact)) + compact[1:])]
        v = []
        c = ctlmod.Controller(s)
        try:
            env = s.env(c.env())
            holder = c.spawn("run", [common.MONORAIL, "run", "-c", "build", "-t", "a", "b", "--deps"], r.dir, env)
            c.wait(lambda: len(c.waiting()) >= 2 or holder.done(), 15)
            mine = list(c.waiting())
            if len(mine) < 2:
                raise common.EngineError("the run did not start its executables (exit %s %s)" % (holder.code, holder.err[:200]))
            outcomes = []
            for name, text in sers:
                r.write("Monorail.json", text)
                res = r.mr("checkpoint", "update")
                outcomes.append((name, res.code, (res.err_json() or {}).get("type")))
            if len({o[1:] for o in outcomes}) != 1:
                v.append(("serialisation-changes-output", "lock port 0, a run in progress, `checkpoint update` under each serialisation of the same value: %s" % outcomes))
            for ch in mine:
                c.release(ch, 0)
            c.wait(lambda: holder.done(), 20)
        finally:
            c.close()
        return {"judged": len(sers), "v": [(sig, d, {"cli_c18_port0": 1}) for sig, d in v]}
    except common.EngineError as e:
        return {"engine_error": str(e)}
    except Exception:
        return {"engine_error": traceback.format_exc()[-1200:]}
    finally:
        s.cleanup()


def c18_checkpoint_task(_):
    """A checkpoint is recorded, one target changes, and only then the configuration file is re-serialised
    (same value, new bytes, new modification time): analyze and run give what they gave before."""
    s = sc.Scratch("c18cp")
    try:
        ts = [{"path": "a"}, {"path": "b", "uses": ["a"]}, {"path": "c"}]
        r = sc.Repo(s, "r", ts, commands={t["path"]: {"build": "x"} for t in ts},
                    files={".gitignore": "monorail-out\nMonorail.json\n"})
        val = json.loads(open(r.path("Monorail.json")).read())
        if r.mr("checkpoint", "update").code != 0:
            raise common.EngineError("checkpoint update failed")
        r.write("c/changed.txt", "x\n")

        def observe():
            a = r.mr("analyze", "--target-groups")
            r.clear_traces()
            rr = r.mr("run", "-c", "build", env=r.trace_env())
            return (a.code, strip_ts(a.json()), rr.code, sorted(r.target_pair(t)[0] for t in r.traces()))
        ref = observe()
        v = []
        judged = 1
        sers = [("pretty", json.dumps(val, indent=2)), ("reverse-sorted-compact", json.dumps(deep_order(val, "reverse-sorted"), separators=(",", ":"))),
                ("padded", json.dumps(val) + " " * 100000), ("same-bytes-new-mtime", None)]
        for name, text in sers:
            time.sleep(0.05)
            if text is None:
                os.utime(r.path("Monorail.json"), None)
            else:
                r.write("Monorail.json", text)
            got = observe()
            judged += 1
            if got != ref:
                v.append(("serialisation-changes-output", "a checkpoint exists and target c changed; after re-serialising the configuration as %s: analyze/run give %s, before %s" % (name, got[1:], ref[1:])))
        return {"judged": judged, "v": [(sig, d, {"cli_c18_cp": 1}) for sig, d in v]}
    except common.EngineError as e:
        return {"engine_error": str(e)}
    except Exception:
        return {"engine_error": traceback.format_exc()[-1200:]}
    finally:
        s.cleanup()


def run_slice(prop, tier):
    if prop == "C17":
        sizes = [3, 60, 400] if tier == "quick" else [3, 60, 160, 400, 1500]
        res = common.pmap(c17_task, sizes + [[3, "binary-source"]])
        res += common.pmap(c17_elsewhere_task, ["subdir", "outside", "symlink-dangling", "symlink-existing"])
        res += common.pmap(c17_regen_from_generated_task, [0])
        res += common.pmap(c17_names_task, ["Monorail.prod.json", "monorail.ci.v2.json", "cfg.json"])
    elif prop == "C18":
        res = common.pmap(c18_task, [3, 40] if tier == "quick" else [3, 40, 300])
        res += common.pmap(c18_checkpoint_task, [0])
        res += common.pmap(c18_generate_pipe_task, [5000, 70_000, 300_000] if tier == "quick" else [5000, 40_000, 70_000, 140_000, 300_000, 1_000_000])
        res += common.pmap(c18_slow_load_task, [48] if tier == "quick" else [48, 128])
        res += common.pmap(c18_port0_task, [0])
        res += common.pmap(c18_defaults_task, ["lock-port-only", "log-port-only", "lock-port-log-host", "lock-timeout-only", "empty-server"])
    elif prop == "C08":
        scripts = c08_scripts(tier)
        tasks = [(n, l, e, k) for (n, l, e) in scripts for k in ((1, 3) if tier == "quick" else (1, 2, 3, 5))]
        # the same scripts with a `log tail` listener attached (all streams; thorough: also partial filters)
        lis = [["--stdout", "--stderr"]] if tier == "quick" else [["--stdout", "--stderr"], ["--stdout"], ["--stderr", "-t", "t0"], ["--stdout", "--stderr", "-c", "build"]]
        tasks += [(n, l, e, k, f) for (n, l, e) in scripts for k in ((2,) if tier == "quick" else (1, 3)) for f in lis]
        res = common.pmap(c08_task, tasks)
        res += common.pmap(c08_repeat_task, [(how, k) for how in ("-c twice", "sequence twice", "sequence mix", "slot reuse") for k in (1, 3)])
        res += common.pmap(c08_show_filters_task, [0])
        res += common.pmap(c08_tiny_task, [0])
        res += common.pmap(c08_big_show_task, [(12, 700_000, 4)] if tier == "quick" else [(12, 700_000, 10), (24, 400_000, 6), (4, 2_500_000, 6)])
        res += common.pmap(c08_latest_task, [(None, 13), (2, 5), (3, 8)] if tier == "quick" else [(None, 23), (1, 4), (2, 7), (3, 11), (5, 13)])
    else:
        return 0, []
    errs = [r["engine_error"] for r in res if "engine_error" in r]
    if errs:
        raise common.EngineError("CLI slice: " + "; ".join(errs[:2]))
    judged = sum(r["judged"] for r in res)
    viol = [{"sig": "cli:" + sig, "detail": d, "rank": 10_000_000_000, "case": case} for r in res for sig, d, case in r["v"]]
    return judged, viol


def merge(result, prop, tier):
    judged, viol = run_slice(prop, tier)
    result["traces_validated_against_impl"] = judged
    result["cli_slice_cases"] = judged
    result["evaluations"] = result.get("evaluations", 0) + judged
    result.setdefault("violations", []).extend(viol[:50])
    result["violation_count"] = result.get("violation_count", 0) + len(viol)
    by = result.setdefault("by_sig", {})
    for v in viol:
        by[v["sig"]] = by.get(v["sig"], 0) + 1
    result["rule"] = result.get("rule", "") + "; plus an end-to-end slice of %d CLI cases through the real binary" % judged
    return result


def replay_case(prop, case):
    if "cli_c08_tiny" in case:
        r = c08_tiny_task(0)
    elif "cli_c08_latest" in case:
        r = c08_latest_task(tuple(case["cli_c08_latest"]))
    elif "cli_c08_show" in case:
        r = c08_show_filters_task(0)
    elif "cli_c08_repeat" in case:
        r = c08_repeat_task(tuple(case["cli_c08_repeat"]))
    elif "cli_c17_names" in case:
        r = c17_names_task(case["cli_c17_names"])
    elif "cli_c17_regen" in case:
        r = c17_regen_from_generated_task(0)
    elif "cli_c17_else" in case:
        r = c17_elsewhere_task(case["cli_c17_else"])
    elif "cli_c17" in case:
        r = c17_task(case["cli_c17"])
    elif "cli_c18_slow" in case:
        r = c18_slow_load_task(case["cli_c18_slow"])
    elif "cli_c18_port0" in case:
        r = c18_port0_task(0)
    elif "cli_c18_pipe" in case:
        r = c18_generate_pipe_task(case["cli_c18_pipe"])
    elif "cli_c08_big" in case:
        r = c08_big_show_task(tuple(case["cli_c08_big"]))
    elif "cli_c18_defaults" in case:
        r = c18_defaults_task(case["cli_c18_defaults"])
    elif "cli_c18_cp" in case:
        r = c18_checkpoint_task(0)
    elif "cli_c18" in case:
        r = c18_task(case["cli_c18"])
    else:
        name, k = case["cli_c08"][:2]
        sc_ = ([x for x in c08_scripts("quick") if x[0] == name] or [x for x in c08_scripts("thorough") if x[0] == name])[0]
        r = c08_task((sc_[0], sc_[1], sc_[2], k) + tuple(case["cli_c08"][2:3]))
    if "engine_error" in r:
        raise common.EngineError(r["engine_error"])
    return [{"sig": "cli:" + s, "detail": d} for s, d, _ in r["v"]]
