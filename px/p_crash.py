"""C13: a crash during `run` never damages previously recorded state.
Fault enumeration: abort at every guarded point around run's own writes (answer `x` at the point's
first hit) and SIGKILL at every logical state of the controlled children, after prefix histories
of 0, 1, max and max+1 completed runs."""
import hashlib
import json
import multiprocessing
import os
import re
import signal
import time
import traceback

import common
import ctl as ctlmod
import scratch as sc
import p_hist

TARGETS = [{"path": "a"}, {"path": "b", "uses": ["a"]}, {"path": "c", "uses": ["a"]}]  # groups [a], [b, c] under any layering
POINTS = ["slot.pre_wipe", "slot.post_wipe", "slot.post_create", "run.pre_exec", "run.post_exec",
          "result.post_open", "result.post_write", "run.pre_pointer", "pointer.post_truncate",
          "pointer.post_write", "run.post_pointer"]
KILL_STATES = [(1, 0), (3, 1), (3, 2), (3, 3)]  # (children arrived, children released and gone)


def prefix_script(i):
    return ["out " + ("prefix run %d says hello\n" % i).encode().hex(), "err " + ("prefix run %d warns\n" % i).encode().hex(), "exit 0"]


def prefix_logs(i):
    return sorted([("stdout.zst", "a", "build", ("prefix run %d says hello\n" % i).encode()),
                   ("stderr.zst", "a", "build", ("prefix run %d warns\n" % i).encode())])


def observers(r, want_doc, want_logs, label):
    v = []
    res = r.mr("result", "show")
    ls = r.mr("log", "show", "--stdout", "--stderr")
    if want_doc is None:
        if res.code == 0:
            v.append(("result-show-invents-a-run", "%s: result show succeeded with %s although no run ever completed" % (label, res.out[:200])))
        if ls.code == 0 and ls.out.strip():
            v.append(("log-show-invents-a-run", "%s: log show printed %r although no run ever completed" % (label, ls.out[:200])))
    else:
        if res.code != 0 or p_hist.canon_result(res.json()) != p_hist.canon_result(want_doc):
            v.append(("result-show-damaged", "%s: result show exit %s %s %s; expected the last completed run %s" % (
                label, res.code, json.dumps(p_hist.canon_result(res.json()))[:200], res.err[:200], json.dumps(p_hist.canon_result(want_doc))[:200])))
        got = p_hist.parse_log_show(ls.out)
        if ls.code != 0 or got != want_logs:
            v.append(("log-show-damaged", "%s: log show exit %s %s %s; expected %s" % (label, ls.code, got, ls.err[:200], want_logs)))
    return v


def scenario(desc):
    maxr, k, crash = desc["max"], desc["prefix"], desc["crash"]
    prefix_max = desc.get("prefix_max", maxr)   # retention setting while the prefix runs were made
    s = sc.Scratch("c13")
    try:
        od = desc.get("out_dir")
        r = sc.Repo(s, "r", TARGETS, commands={t["path"]: {"build": "x"} for t in TARGETS}, max_retained_runs=prefix_max,
                    cfg_extra={"out_dir": od} if od else None,
                    files={".gitignore": "monorail-out\n%s\n" % od.split("/")[0]} if od else None)
        viol = []
        if desc.get("foreign"):
            # every invocation (checkpoint, prefix runs, victim, observers, next run) is made as
            # `-f <abs config>` from an unrelated directory
            r.foreign_cwd()
        # a checkpoint with pending entries
        r.write("a/pending.txt", "pending\n")
        res = r.mr("checkpoint", "update", "-p")
        if res.code != 0:
            raise common.EngineError("checkpoint update failed %r" % res)
        cp_show = r.mr("checkpoint", "show").json()
        cp_file = os.path.join(r.out_dir(), "tracking", "checkpoint.json.zst")
        cp_bytes = open(cp_file, "rb").read()
        last_doc, last_logs = None, None
        for i in range(k):
            r.set_script("a", "build", prefix_script(i))
            pr = r.mr("run", "-c", "build", "-t", "a", env=r.trace_env())
            if pr.code != 0 or pr.json() is None:
                raise common.EngineError("prefix run %d failed: %r" % (i, pr))
            last_doc, last_logs = pr.json(), prefix_logs(i)
        if desc.get("last_noop"):
            # the last completed run selected no targets (a checkpoint exists, everything changed is pending)
            pr = r.mr("run", "-c", "build", env=r.trace_env())
            if pr.code != 0 or pr.json() is None:
                raise common.EngineError("no-op prefix run failed: %r" % pr)
            last_doc, last_logs = pr.json(), []
        if prefix_max != maxr:
            # the retention setting is edited between runs (still >= 2)
            r.cfg["max_retained_runs"] = maxr
            r.write_cfg()
        detected = desc.get("victim") == "detected"
        if detected:
            # the victim selects its targets by change detection: the file recorded as pending is edited
            # again (so it counts as changed) and every target has a new file
            r.write("a/pending.txt", "pending, edited after the checkpoint\n")
            r.write("b/new.txt", "x\n")
            r.write("c/new.txt", "x\n")
        if desc.get("listener"):
            # a `log tail` listener is attached while the victim runs and dies, and stays for what follows
            import subprocess
            lis = subprocess.Popen([common.MONORAIL, "log", "tail", "--stdout", "--stderr"], cwd=r.dir, env=s.env(),
                                   stdout=subprocess.DEVNULL, stderr=subprocess.DEVNULL, start_new_session=True)
            s.popens.append(lis)
            t_end = time.time() + 10
            while not sc.port_listening(r.log_port):
                if lis.poll() is not None or time.time() > t_end:
                    raise common.EngineError("log tail did not start")
                time.sleep(0.02)
        # ---- the victim
        c = ctlmod.Controller(s)
        realised = False
        try:
            crashed = {"done": False}

            def on_hit(h):
                if crash["kind"] == "point" and h.name == crash["name"] and not crashed["done"]:
                    crashed["done"] = True
                    return b"x"
                return b"c"
            c.auto_points = on_hit
            env = s.env(c.env(points=["slot.", "run.", "result.", "pointer."]))
            if crash["kind"] == "call":
                # crash points at system-call granularity (LD_PRELOAD shim): the run kills itself just before / just
                # after the n-th file-system call that concerns a path containing `match`
                env.update({"LD_PRELOAD": common.CRASH_AT_CALL_SO, "MRV_CRASH_MATCH": crash["match"], "MRV_CRASH_AT": str(crash["n"]), "MRV_CRASH_WHEN": crash["when"]})
            victim_args = ["run", "-c", "build"] if detected else ["run", "-c", "build", "-t", "a", "b", "c", "--deps"]
            if desc.get("victim") == "two-commands":
                victim_args = ["run", "-c", "build", "build", "-t", "a", "b", "c", "--deps"]   # the command given twice: six executions
            argv_, cwd_ = r.cmdline(*victim_args)
            p = c.spawn("victim", argv_, cwd_, env)
            t_end = time.time() + 30
            arrived = lambda: len(c.children)
            gone = lambda: len([ch for ch in c.children if ch.state == "gone" and ch.release_seq is not None])
            while not p.done() and time.time() < t_end:
                c.pump(0.01)
                if crash["kind"] == "kill":
                    a, g = crash["state"]
                    stable = not [ch for ch in c.children if ch.state == "released"]
                    if arrived() == a and gone() == g and stable and (len(c.waiting()) == a - g):
                        if not (a == 3 and g == 3):
                            c.kill(p)
                            realised = True
                            c.wait(lambda: p.done(), 10)
                            break
                    if (a, g) == (3, 3) and gone() == 3:
                        # all children done: kill while the run is writing its own records (best effort)
                        c.kill(p)
                        realised = True
                        c.wait(lambda: p.done(), 10)
                        break
                    want_rel = g
                    if gone() < want_rel and c.waiting() and stable:
                        ch = sorted(c.waiting(), key=lambda x: x.cwd)[0]
                        c.release(ch, 0, ["out " + b"victim output\n".hex()])
                else:
                    for ch in list(c.waiting()):
                        c.release(ch, 0, ["out " + b"victim output\n".hex()])
            if not p.done():
                c.kill(p, group=True)
                c.wait(lambda: p.done(), 5)
                viol.append(("victim-hung", "victim run did not end"))
            if crash["kind"] == "call":
                realised = p.code is not None and p.code < 0
            if crash["kind"] == "point":
                realised = crashed["done"] and p.code is not None and p.code < 0
            victim_completed = p.code in (0, 1)
            victim_doc = sc.Result(p.code, p.out, p.err).json() if victim_completed else None
        finally:
            c.close()
        busy = None
        if desc.get("lock_busy"):
            # while the survivors are looked at, something else is listening on the lock address (another
            # repository configured with the same address is in the middle of an update): reading results
            # and logs takes no lock and must not care
            import socket
            busy = socket.socket()
            busy.setsockopt(socket.SOL_SOCKET, socket.SO_REUSEADDR, 1)
            try:
                busy.bind(("127.0.0.1", r.lock_port))
                busy.listen(8)
            except OSError as e:
                raise common.EngineError("could not occupy the lock address: %s" % e)
        # ---- what must survive
        label = "max=%d%s prefix=%d crash=%s" % (maxr, "" if prefix_max == maxr else " (was %d)" % prefix_max, k, crash.get("name") or ("%s call #%d on *%s*" % (crash["when"], crash["n"], crash["match"]) if crash["kind"] == "call" else "kill@%s" % (crash.get("state"),)))
        if victim_completed and victim_doc is not None:
            # the crash point was after the run had fully completed (e.g. kill lost the race): the
            # victim is then simply the latest completed run
            want_doc = victim_doc
            want_logs = sorted([("stdout.zst", t, "build", b"victim output\n") for t in ("a", "b", "c")])
        else:
            want_doc, want_logs = last_doc, last_logs
        # run.post_pointer / pointer.post_write: every record of the victim is already on disk, so either
        # answer (previous run, or the victim itself) is a state of "the last completed run"
        after_all_writes = (crash["kind"] == "point" and crash["name"] in ("pointer.post_write", "run.post_pointer")) or \
            (crash["kind"] == "kill" and tuple(crash["state"]) == (3, 3)) or \
            crash["kind"] == "call"   # (which call is the last write is not known here: either answer, but a consistent one)
        if after_all_writes:
            v1 = observers(r, want_doc, want_logs, label)
            if v1:
                vic_logs = sorted([("stdout.zst", t, "build", b"victim output\n") for t in ("a", "b", "c")])
                res = r.mr("result", "show")
                ls = r.mr("log", "show", "--stdout", "--stderr")
                inv = re.sub(r"-f \S*Monorail\.json ", "", (res.json() or {}).get("invocation") or "")
                if not (res.code == 0 and inv == " ".join(victim_args) and p_hist.parse_log_show(ls.out) == vic_logs):
                    viol += v1
        else:
            viol += observers(r, want_doc, want_logs, label)
        cs = r.mr("checkpoint", "show").json()
        if cs != cp_show and (cs or {}).get("checkpoint") != (cp_show or {}).get("checkpoint"):
            viol.append(("checkpoint-changed", "%s: checkpoint show %s vs %s" % (label, cs, cp_show)))
        if open(cp_file, "rb").read() != cp_bytes:
            viol.append(("checkpoint-file-changed", label))
        if busy is not None:
            busy.close()
        # ---- the next run succeeds normally and becomes the latest
        r.set_script("a", "build", prefix_script(99))
        nr = r.mr("run", "-c", "build", "-t", "a", env=r.trace_env())
        if nr.code != 0 or nr.json() is None:
            viol.append(("next-run-fails", "%s: next run exit %s %s" % (label, nr.code, nr.err[:300])))
        else:
            viol += [(sig.replace("damaged", "wrong-after-next-run"), d) for sig, d in observers(r, nr.json(), prefix_logs(99), label + " then next run")]
            n = len(os.listdir(os.path.join(r.out_dir(), "run")))
            if n > maxr and prefix_max == maxr:
                viol.append(("too-many-run-directories", "%s: %d directories" % (label, n)))
        return {"evaluations": 1, "nontrivial": 1 if realised else 0, "unrealised": 0 if realised else 1,
                "violations": [{"sig": sig, "detail": d, "rank": k * 100 + maxr, "case": {"c13": desc}} for sig, d in viol],
                "sample": {"label": label, "victim_exit": p.code, "crash_realised": realised}}
    except common.EngineError as e:
        return {"engine_error": str(e)}
    except Exception:
        return {"engine_error": traceback.format_exc()[-1500:]}
    finally:
        s.cleanup()


def scenarios(tier):
    out = []
    for maxr in ([2] if tier == "quick" else [2, 3]):
        for k in sorted({0, 1, maxr, maxr + 1}):
            for name in POINTS:
                out.append({"max": maxr, "prefix": k, "crash": {"kind": "point", "name": name}})
            for st in KILL_STATES:
                out.append({"max": maxr, "prefix": k, "crash": {"kind": "kill", "state": list(st)}})
    # a custom, nested output directory whose name contains a space
    for name in POINTS:
        out.append({"max": 2, "prefix": 2, "out_dir": "var/mr out", "crash": {"kind": "point", "name": name}})
    for st in KILL_STATES:
        out.append({"max": 2, "prefix": 2, "out_dir": "var/mr out", "crash": {"kind": "kill", "state": list(st)}})
    # with a listener attached; and with the default-sized retention (10) around the wrap of the slot counter
    for name in POINTS:
        out.append({"max": 2, "prefix": 1, "listener": True, "crash": {"kind": "point", "name": name}})
        for k in ((9, 10) if tier == "quick" else (9, 10, 11, 20)):
            out.append({"max": 10, "prefix": k, "crash": {"kind": "point", "name": name}})
    for st in KILL_STATES:
        out.append({"max": 2, "prefix": 1, "listener": True, "crash": {"kind": "kill", "state": list(st)}})
        out.append({"max": 10, "prefix": 10, "crash": {"kind": "kill", "state": list(st)}})
    # the last completed run before the victim was a run of nothing
    for name in POINTS:
        out.append({"max": 2, "prefix": 1, "last_noop": True, "crash": {"kind": "point", "name": name}})
        out.append({"max": 2, "prefix": 1, "lock_busy": True, "crash": {"kind": "point", "name": name}})
    for st in KILL_STATES:
        out.append({"max": 2, "prefix": 1, "last_noop": True, "crash": {"kind": "kill", "state": list(st)}})
        out.append({"max": 3, "prefix": 3, "lock_busy": True, "crash": {"kind": "kill", "state": list(st)}})
        out.append({"max": 3, "prefix": 2, "last_noop": True, "crash": {"kind": "kill", "state": list(st)}})
    # a victim that executes its command twice (six children): crash points are hit in the second pass too
    for name in POINTS:
        out.append({"max": 2, "prefix": 1, "victim": "two-commands", "crash": {"kind": "point", "name": name}})
    for st in [(4, 3), (6, 5)]:
        out.append({"max": 2, "prefix": 1, "victim": "two-commands", "crash": {"kind": "kill", "state": list(st)}})
    # everything invoked from an unrelated directory
    for name in POINTS:
        out.append({"max": 2, "prefix": 1, "foreign": True, "crash": {"kind": "point", "name": name}})
    # the victim selects its targets by change detection (checkpoint with a pending entry that was edited since)
    for name in POINTS:
        out.append({"max": 2, "prefix": 1, "victim": "detected", "crash": {"kind": "point", "name": name}})
    for st in KILL_STATES:
        out.append({"max": 2, "prefix": 1, "victim": "detected", "crash": {"kind": "kill", "state": list(st)}})
    # crash points at system-call granularity, wherever the guarded points are: before and after each of the first
    # file-system calls on the run pointer and on the result record (thorough: on anything below the output directory)
    for (match, nmax) in ([("/tracking/run.json", 8), ("/result.json", 6)] if tier == "quick" else [("/tracking/", 14), ("/result.json", 8), ("/monorail-out/", 160)]):
        for n in range(1, nmax + 1):
            for when in ("pre", "post"):
                for (maxr_, k_) in ([(2, 1)] if tier == "quick" or match == "/monorail-out/" else [(2, 1), (2, 2), (3, 3)]):
                    out.append({"max": maxr_, "prefix": k_, "crash": {"kind": "call", "match": match, "n": n, "when": when}})
    # retention setting changed between runs: prefix made with a larger (or smaller) max_retained_runs
    for (pm, k, maxr) in ([(5, 4, 3), (5, 5, 2), (2, 2, 4)] if tier == "quick" else [(5, 4, 3), (5, 5, 2), (5, 3, 2), (2, 2, 4), (3, 3, 5), (6, 6, 3)]):
        for name in POINTS:
            out.append({"max": maxr, "prefix": k, "prefix_max": pm, "crash": {"kind": "point", "name": name}})
        for st in KILL_STATES:
            out.append({"max": maxr, "prefix": k, "prefix_max": pm, "crash": {"kind": "kill", "state": list(st)}})
    return out


def run(prop, tier):
    descs = scenarios(tier)
    results = common.pmap(scenario, descs)
    errs = [r["engine_error"] for r in results if "engine_error" in r]
    if errs:
        raise common.EngineError("; ".join(errs[:2]))
    agg = {"evaluations": len(results), "distinct_nontrivial": sum(r["nontrivial"] for r in results),
           "unrealised_crash_points": sum(r["unrealised"] for r in results),
           "violations": [v for r in results for v in r["violations"]],
           "samples": [r["sample"] for r in results[:: max(1, len(results) // 5)]][:6], "exhaustive": True,
           "rule": "prefix histories of {0, 1, max, max+1} completed runs x max_retained_runs in {2} (thorough {2,3}) x a victim run (2 groups, 3 controlled children, -t a b c --deps) terminated at: every guarded point in run.rs/tracking.rs (%s; abort at the first hit) and SIGKILL at the child states (arrived, exited) in %s; plus the survivors looked at while something else is listening on the lock address; plus self-inflicted SIGKILL just before and just after each of the first file-system calls (open, write, rename, unlink, ...; LD_PRELOAD shim) that concern the run pointer and the result record (thorough: anything below the output directory); plus prefixes made under a different max_retained_runs that is edited (to a value >= 2) before the victim run; a checkpoint with pending entries is installed first; after the crash: result show and log show == last completed run (or report none), checkpoint show and file unchanged, the next run exits 0 and becomes the latest; non-trivial = scenarios whose crash point was actually realised" % (", ".join(POINTS), KILL_STATES)}
    by = {}
    for v in agg["violations"]:
        by[v["sig"]] = by.get(v["sig"], 0) + 1
    agg["by_sig"] = by
    agg["violation_count"] = len(agg["violations"])
    agg["violations"] = sorted(agg["violations"], key=lambda v: v["rank"])[:100]
    return agg, ["process death only (abort / SIGKILL); power-loss semantics (unsynced data, torn sectors) are not modelled",
                 "max_retained_runs >= 2, as the statement requires"]


def replay(prop, path):
    body = json.load(open(path))
    r = scenario(body["case"]["c13"])
    if "engine_error" in r:
        print("ENGINE:", r["engine_error"])
        return 2
    if r["violations"]:
        for v in r["violations"]:
            print("REPLAY property=%s still violates: [%s] %s" % (prop, v["sig"], v["detail"][:300]))
        print("VIOLATION property=%s replay=%s" % (prop, path))
        return 1
    print("REPLAY property=%s: case passes on the current tree" % prop)
    return 0
