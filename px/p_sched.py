"""C04 C05 C06 C16: schedule exploration of real `monorail run` executions (engine: sched.py)."""
import itertools
import json
import multiprocessing
import os
import time
import traceback

import common
import sched
import scratch as sc

NAMES = ["t1", "t10", "t20-" + "\u00e9\u20ac" * 10, "t\u00fc", "t3xx-" + "\u00e9\u20ac" * 10 + "y"]  # prefix siblings, a short non-ASCII name, two long names of 2- and 3-byte characters whose ASCII prefix and suffix lengths differ (a fixed byte offset from either end falls inside a character of one of them)

# edge (i, j): target i `uses` target j, i.e. i depends on j
SHAPES = {
    "single": (1, []),
    "chain3": (3, [(0, 1), (1, 2)]),
    "chain4": (4, [(0, 1), (1, 2), (2, 3)]),
    "join3": (4, [(0, 1), (0, 2), (0, 3)]),
    "fork": (3, [(1, 0), (2, 0)]),
    "join": (3, [(0, 1), (0, 2)]),
    "diamond": (4, [(0, 1), (0, 2), (1, 3), (2, 3)]),
    "N": (4, [(0, 2), (1, 2), (1, 3)]),
    "two_components": (4, [(0, 1), (2, 3)]),
    "independent3": (3, []),
    "chain2_plus_isolated": (3, [(0, 1)]),
    "transitive_redundant": (3, [(0, 1), (1, 2), (0, 2)]),
    "wide4": (4, []),
    "nested_pair": ("nested", None),
    # names that an over-eager normalisation of -t / path values would change or confuse: a leading dot
    # next to the same name without it, a comma, a trailing dot
    "odd_names": ("odd", None),
    # dependencies that exist only through paths the depended-upon target ignores (`ignores` concern change
    # detection, not ordering): app uses lib/docs which lib ignores; svc/plugin is nested in svc which ignores it
    "ignored_edges": ("ign", None),
    # a dependency through a path that does not exist when the run is planned (the dependency's command generates it)
    "generated_uses": ("gen", None),
}


def all_dags(n):
    """Every labelled DAG on n nodes as an edge list (i, j) = i uses j."""
    pairs = [(i, j) for i in range(n) for j in range(n) if i != j]
    out = []
    for bits in range(1 << len(pairs)):
        edges = [pairs[k] for k in range(len(pairs)) if bits >> k & 1]
        # acyclic?
        rem = set(range(n))
        while True:
            strip = [x for x in rem if not any(a == x and b in rem for a, b in edges)]
            if not strip:
                break
            rem -= set(strip)
        if not rem:
            out.append(edges)
    return out


def shape_targets(shape):
    if shape.startswith("dag"):
        n, bits = shape[3:].split(":")
        n = int(n)
        edges = [tuple(map(int, e.split("-"))) for e in bits.split(",") if e]
        ts = [{"path": NAMES[i]} for i in range(n)]
        for i, j in edges:
            ts[i].setdefault("uses", []).append(NAMES[j])
        return ts
    n, edges = SHAPES[shape]
    if n == "odd":
        # (no space: -t takes a space-delimited list, so a path with a space cannot be named there)
        return [{"path": ".ci"}, {"path": "ci", "uses": [".ci"]}, {"path": "my,target"}, {"path": "x.", "uses": ["my,target"]}]
    if n == "gen":
        return [{"path": "proto"}, {"path": "app", "uses": ["proto/gen"]}, {"path": "web", "uses": ["proto/gen/api/v1.ts", "app"]}]
    if n == "ign":
        return [{"path": "lib", "ignores": ["lib/docs"]}, {"path": "app", "uses": ["lib/docs"]}, {"path": "svc", "ignores": ["svc/plugin"]}, {"path": "svc/plugin"}]
    if n == "nested":
        # p, p/c nested in it, q uses a file inside p/c
        return [{"path": "p"}, {"path": "p/c"}, {"path": "q", "uses": ["p/c/f.txt"]}]
    ts = [{"path": NAMES[i]} for i in range(n)]
    for i, j in edges:
        ts[i].setdefault("uses", []).append(NAMES[j])
    return ts


def tmap(targets):
    return {t["path"]: t for t in targets}


def all_x(targets, commands):
    return {(t["path"], c): "x" for t in targets for c in commands}


# ------------------------------------------------------------------------------------------ C04

def c04_monitor(sn):
    tm = tmap(sn.targets)
    cidx = {c: i for i, c in enumerate(sn.commands)}

    reach = {}   # target -> everything it depends on, transitively (also through targets outside the run)

    def mon(ex):
        out = []
        for (cmd, t), seqs in ex.arrive.items():
            if cmd not in cidx:
                continue
            a = min(seqs)
            for (c2, u), seqs2 in ex.arrive.items():
                if (c2, u) == (cmd, t) or c2 not in cidx:
                    continue
                need = None
                if c2 == cmd and u in tm and t in tm and u != t and u in reach.setdefault(t, sched.closure(tm, [t])):
                    need = "%s depends on %s" % (t, u)
                elif cidx[c2] < cidx[cmd]:
                    need = "command %s precedes %s" % (c2, cmd)
                if need is None:
                    continue
                g = ex.gone.get((c2, u))
                if g is None or g > a:
                    out.append(("started-before-dependency-exited" if c2 == cmd else "started-before-previous-command-finished",
                                "%s:%s arrived at event %d but %s:%s had %s (%s)" % (
                                    cmd, t, a, c2, u, "not exited" if g is None else "exited only at event %d" % g, need)))
        if ex.timeout:
            out.append(("run-hung", "run did not finish within the horizon"))
        return out
    return mon


def c04_scenarios(tier):
    out = []
    shapes = list(SHAPES)
    for sh in shapes:
        ts = shape_targets(sh)
        paths = [t["path"] for t in ts]
        cmdlists = [
            (["-c", "build"], ["build"], None, 99),
            (["-c", "build", "test"], ["build", "test"], None, 1 if tier == "quick" else 2),
            (["-s", "seq", "-c", "lint"], ["build", "test", "lint"], {"seq": ["build", "test"]}, 1 if tier == "quick" else 2),
            # two sequences given in an order that is not the lexicographic order of their names
            (["-s", "zz", "aa", "-c", "lint"], ["build", "test", "lint"], {"zz": ["build"], "aa": ["test"]}, 0 if tier == "quick" else 1),
        ]
        for args, cmds, seqs, maxdev in cmdlists:
            modes = [("all", None, [], None, False)]
            if len(paths) > 1:
                modes.append(("changed", "head", paths[: (len(paths) + 1) // 2], None, False))
                if len(paths) >= 4:
                    # only the two ends are touched: the affected set has a hole (a target in the middle of a
                    # dependency path is not part of the run)
                    modes.append(("changed-ends", "head", [paths[0], paths[-1]], None, False))
                modes.append(("deps", None, [], [paths[0]], True))
                # -t naming a set that is already closed under dependencies (--deps adds nothing), in
                # an order that is not a dependency order
                modes.append(("deps-closed", None, [], list(reversed(paths)), True))
            if tier == "quick" and len(cmds) > 1:
                modes = [m for m in modes if m[0] in ("all", "deps", "deps-closed")]
            for mname, cp, changed, explicit, deps in modes:
                a = list(args)
                if explicit:
                    a += ["-t"] + explicit + ["--deps"]
                sn = sched.Scenario("%s/%s/%s" % (sh, "+".join(cmds), mname), ts, all_x(ts, cmds), a, cmds,
                                    checkpoint=cp, changed=changed, sequences=seqs, explicit=explicit, deps=deps)
                out.append(("c04", sn.describe(), {"max_dev": maxdev, "sequences": seqs}))
        pass
    if tier == "thorough":
        for n in (2, 3, 4):
            for edges in all_dags(n):
                sh = "dag%d:%s" % (n, ",".join("%d-%d" % e for e in edges))
                ts = shape_targets(sh)
                sn = sched.Scenario("%s/build/all" % sh, ts, all_x(ts, ["build"]), ["-c", "build"], ["build"])
                out.append(("c04", sn.describe(), {"max_dev": 99, "sequences": None}))
    for sh in shapes:
        ts = shape_targets(sh)
        paths = [t["path"] for t in ts]
        # eager deviation: each single child (first command) released the instant it arrives
        for t in paths:
            sn = sched.Scenario("%s/build/eager:%s" % (sh, t), ts, all_x(ts, ["build"]), ["-c", "build"], ["build"],
                                eager=[("build", t)])
            out.append(("c04", sn.describe(), {"max_dev": 0 if tier == "quick" else 1, "sequences": None}))
    # many commands in one invocation (eleven and twelve, by -c and through a sequence): still in the order given
    ts = shape_targets("chain2_plus_isolated")
    for ncmd_ in (11, 12):
        cmds_ = ["c%02d" % i for i in range(ncmd_)]
        for args_, seqs_ in ((["-c"] + cmds_, None), (["-s", "all"], {"all": cmds_}), (["-s", "first"] + ["-c"] + cmds_[3:], {"first": cmds_[:3]})):
            sn = sched.Scenario("chain2_plus_isolated/%d-commands/%s" % (ncmd_, args_[0]), ts, all_x(ts, cmds_), args_, cmds_, sequences=seqs_)
            out.append(("c04", sn.describe(), {"max_dev": 0, "sequences": seqs_}))
    # one target does not define the first command (it is reported `undefined`, nothing is started for it):
    # the others are still ordered among themselves
    for sh in shapes:
        ts = shape_targets(sh)
        paths = [t["path"] for t in ts]
        if len(paths) < 2:
            continue
        for t_ in (paths if tier != "quick" else paths[:2] + paths[-1:]):
            modes = all_x(ts, ["build", "test"])
            modes[(t_, "build")] = None
            sn = sched.Scenario("%s/build+test/all/undefined-build:%s" % (sh, t_), ts, modes, ["-c", "build", "test"], ["build", "test"])
            out.append(("c04", sn.describe(), {"max_dev": 1 if tier == "quick" else 2, "sequences": None}))
    # a group of three in which one member fails, one has closed its output streams (monorail has to wait for
    # it) and one keeps running with open streams (monorail abandons it): nothing of the next group or the
    # next command may start while the abandoned one is still running
    ts = shape_targets("join3")
    paths = [t["path"] for t in ts]
    for bad, quiet in ((paths[1], paths[2]), (paths[2], paths[3]), (paths[3], paths[1])):
        sn = sched.Scenario("join3/build+test/all/fail:%s/closed:%s" % (bad, quiet), ts, all_x(ts, ["build", "test"]), ["-c", "build", "test"], ["build", "test"],
                            faults={("build", bad): 1})
        sn.close_streams = [quiet]
        out.append(("c04", sn.describe(), {"max_dev": 2, "sequences": None}))
    # executables that close both output streams right after starting and keep running (exec >log 2>&1)
    for sh in shapes:
        ts = shape_targets(sh)
        sn = sched.Scenario("%s/build+test/all/closed-streams" % sh, ts, all_x(ts, ["build", "test"]), ["-c", "build", "test"], ["build", "test"])
        sn.close_streams = True
        out.append(("c04", sn.describe(), {"max_dev": 0 if tier == "quick" else 1, "sequences": None}))
    # the surroundings of a run: records of an earlier (failed / successful) run on disk, a listener attached
    ctxs = [["prior-failed"], ["listener"], ["foreign"], ["verbose"]] if tier == "quick" else [["prior-failed"], ["prior-ok"], ["listener"], ["prior-failed", "listener"], ["foreign"], ["foreign", "prior-failed", "listener"], ["verbose"], ["verbose", "listener"]]
    for sh in shapes:
        ts = shape_targets(sh)
        for ctx in ctxs:
            sn = sched.Scenario("%s/build+test/all/%s" % (sh, "+".join(ctx)), ts, all_x(ts, ["build", "test"]), ["-c", "build", "test"], ["build", "test"])
            out.append(("c04", sn.describe(), {"max_dev": 1 if tier == "quick" else 2, "sequences": None, "context": ctx}))
    return out


# ------------------------------------------------------------------------------------------ C16

def c16_scenarios(tier):
    sizes = [2, 3, 4, 5, 8, 13, 21, 34, 48, 65] if tier == "quick" else list(range(2, 49)) + [64, 65, 100, 129]
    positions = ["only", "first", "middle", "last"]
    out = []
    for n in sizes:
        for pos in positions:
            for ncmd in (1, 2):
                if (tier == "quick" and ncmd == 2 and n not in (2, 5, 21)) or (n > 48 and (ncmd == 2 or pos not in ("only", "middle"))):
                    continue
                out.append(("c16", {"n": n, "pos": pos, "ncmd": ncmd}, {}))
    # many tasks before the group under test: wide groups in sequence, and wide groups under several commands
    chains = [[30, 30, 10], [40, 40], [20, 20, 20, 20]] if tier == "quick" else [[30, 30, 10], [40, 40], [20, 20, 20, 20], [48, 48, 48], [10] * 10, [60, 60, 2]]
    for w in chains:
        for ncmd in (1, 2):
            out.append(("c16", {"n": max(w), "pos": "chain", "ncmd": ncmd, "widths": w}, {}))
    for n in ([40] if tier == "quick" else [24, 40, 48]):
        out.append(("c16", {"n": n, "pos": "only", "ncmd": 2}, {}))
    # all members of the group execute one shared file
    for n in ([2, 5] if tier == "quick" else [2, 3, 5, 13]):
        for shared in ("definitions", "commands.path"):
            out.append(("c16", {"n": n, "pos": "middle", "ncmd": 1, "shared": shared}, {}))
    # with a log tail listener attached (everything admitted / a filter admitting two members / one member)
    for n in ([2, 5, 13] if tier == "quick" else [2, 3, 5, 13, 34]):
        for lis in (["--stdout", "--stderr"], ["--stdout", "-t", "g00", "g01"], ["--stderr", "-t", "g00"]):
            out.append(("c16", {"n": n, "pos": "middle", "ncmd": 1, "listener": lis}, {}))
    # invoked as -f <abs config> from an unrelated directory
    for n in ([2, 5, 24] if tier == "quick" else [2, 3, 5, 13, 24, 48]):
        out.append(("c16", {"n": n, "pos": "middle", "ncmd": 1, "foreign": True}, {}))
    # one member's command file becomes executable only while the run is under way (the target before the group does it)
    for n in ([2, 5, 24] if tier == "quick" else [2, 3, 5, 13, 24, 48]):
        for k in sorted({0, n - 1}):
            out.append(("c16", {"n": n, "pos": "middle", "ncmd": 1, "late_x": k}, {}))
    # the first members finish at once (successfully) while the group is still being started
    for n in ([8, 24, 48] if tier == "quick" else [4, 8, 13, 24, 48, 65]):
        for k in (1, 3):
            out.append(("c16", {"n": n, "pos": "middle", "ncmd": 1, "early": k}, {}))
            out.append(("c16", {"n": n, "pos": "only", "ncmd": 1, "early": k}, {}))
    # one member (first / middle / last but one) takes arguments from an argmap file
    for n in ([2, 5, 24] if tier == "quick" else [2, 3, 5, 13, 24, 48]):
        for k in sorted({0, n // 2, max(0, n - 2)}):
            out.append(("c16", {"n": n, "pos": "middle", "ncmd": 1, "argmap": k}, {}))
    # further flags: --fail-on-undefined (everything is defined), the commands given as a sequence
    for n in ([2, 5, 24] if tier == "quick" else [2, 3, 5, 13, 24, 48]):
        out.append(("c16", {"n": n, "pos": "middle", "ncmd": 1, "flags": "fail-on-undefined"}, {}))
        out.append(("c16", {"n": n, "pos": "only", "ncmd": 1, "flags": "fail-on-undefined"}, {}))   # (the group under test is the first thing that runs)
        out.append(("c16", {"n": n, "pos": "first", "ncmd": 2, "flags": "fail-on-undefined"}, {}))
        out.append(("c16", {"n": n, "pos": "middle", "ncmd": 2, "flags": "sequence"}, {}))
    # the group reached through -t ... --deps instead of change detection
    for n in ([2, 5, 24] if tier == "quick" else [2, 3, 5, 13, 24, 48]):
        for pos, named in (("middle", "last"), ("only", "all"), ("last", "all")):
            out.append(("c16", {"n": n, "pos": pos, "ncmd": 1, "select": "deps", "named": named}, {}))
    # under a low soft limit of open files inherited from the invoking shell
    for n in ([2, 6, 13] if tier == "quick" else [2, 3, 6, 13, 20]):
        for nofile in (256, 384):
            for pos in ("only", "middle"):
                out.append(("c16", {"n": n, "pos": pos, "ncmd": 1, "nofile": nofile}, {}))
    # ... and the one named target also gets runtime arguments (-a)
    for n in ([2, 5, 24] if tier == "quick" else [2, 3, 5, 13, 24, 48]):
        for pos in ("middle", "first"):
            out.append(("c16", {"n": n, "pos": pos, "ncmd": 1, "select": "deps", "named": "last", "rtargs": True}, {}))
    # some members of the group do not define the command (first / middle / last in declaration order, several)
    for n in ([3, 6, 24] if tier == "quick" else [3, 4, 6, 13, 24, 48]):
        for undef in ([0], [n // 2], [n - 1], [0, 1], [0, n // 2, n - 1]):
            if len(undef) < n - 1:
                out.append(("c16", {"n": n, "pos": "middle", "ncmd": 1, "undef": undef}, {}))
                if n <= 6:
                    out.append(("c16", {"n": n, "pos": "only", "ncmd": 2, "undef": undef}, {}))
    # with a history: an earlier run of the same command in the same repository in which one member
    # of the group failed (first / middle / last member), or in which everything succeeded
    for n in ([2, 5, 24] if tier == "quick" else [2, 3, 5, 13, 24, 48]):
        for prior in ("ok", 0, n // 2, n - 1):
            out.append(("c16", {"n": n, "pos": "middle", "ncmd": 1, "prior": prior}, {}))
    return out


def c16_build(n, pos):
    """group of n independent targets g00..; chains before/after realised through uses."""
    group = [{"path": "g%02d" % i} for i in range(n)]
    before = {"path": "pre"}
    after = {"path": "post", "uses": ["g%02d" % i for i in range(n)]}
    ts = list(group)
    if pos in ("middle", "last"):
        for g in group:
            g["uses"] = ["pre"]
        ts.append(before)
    if pos in ("first", "middle"):
        ts.append(after)
    return ts, [g["path"] for g in group]


def c16_chain(widths):
    """consecutive groups of the given widths: every member of group k uses the first member of group k-1"""
    ts = []
    for k, w in enumerate(widths):
        for i in range(w):
            t = {"path": "w%d_%02d" % (k, i)}
            if k > 0:
                t["uses"] = ["w%d_00" % (k - 1)]
            ts.append(t)
    return ts


def c16_task(desc):
    n, pos, ncmd = desc["n"], desc["pos"], desc["ncmd"]
    if pos == "chain":
        ts, group = c16_chain(desc["widths"]), []
    else:
        ts, group = c16_build(n, pos)
    cmds = ["build", "test"][:ncmd]
    modes = all_x(ts, cmds)
    if desc.get("shared"):
        # every target resolves the command to ONE shared executable (definitions with the same path,
        # or one shared commands.path directory)
        for t in ts:
            if desc["shared"] == "definitions":
                t["commands"] = {"definitions": {c: {"path": "tools/%s.sh" % c} for c in cmds}}
            else:
                t["commands"] = {"path": "tools"}
            for c in cmds:
                modes[(t["path"], c)] = None
    for i in desc.get("undef") or []:
        # members of the group that do not define the command(s) at all
        for c in cmds:
            modes[(group[i], c)] = None
    sn = sched.Scenario("group%d/%s/%dcmd" % (n, pos, ncmd), ts, modes, ["-c"] + cmds, cmds)
    if desc.get("flags"):
        # the same plan with further flags that must not change how a group is started
        extra = {"fail-on-undefined": ["--fail-on-undefined"], "sequence": None}[desc["flags"]]
        if extra is None:
            sn = sched.Scenario(sn.name + "/sequence", ts, modes, ["-s", "all"], cmds, sequences={"all": cmds})
        else:
            sn = sched.Scenario(sn.name + "/" + desc["flags"], ts, modes, ["-c"] + cmds + extra, cmds, fail_on_undefined=True)
    if desc.get("select") == "deps":
        # the same plan reached through explicit targets and --deps (the last target of the plan, or all of them)
        named = [t["path"] for t in ts] if desc.get("named") == "all" else [ts[-1]["path"]] if pos in ("middle", "first") else [t["path"] for t in ts]
        # rtargs: the one named target also gets runtime arguments (-a); its dependencies are started as always
        rt = ["-a", "v1", "v 2"] if desc.get("rtargs") else []
        sn = sched.Scenario(sn.name + "/-t+deps" + ("+args" if rt else ""), ts, modes, ["-c"] + cmds + ["-t"] + named + ["--deps"] + rt, cmds, explicit=named, deps=True)
    s = sc.Scratch("c16")
    try:
        r = sched.build_repo(s, sn)
        if desc.get("nofile"):
            # the invoking shell has a low soft limit of open files (ulimit -n 256 / 384): far more than a group of this size needs
            r.limit_open_files(desc["nofile"])
        if desc.get("shared"):
            for c in cmds:
                r.command_file("", c, "x", cmd_dir="tools", name="%s.sh" % c)
            r.commit("shared tools")
        late_x = None
        if desc.get("late_x") is not None:
            # this member's command file is a real file without execute permission when the run starts;
            # the target that runs before the group grants the bit
            late_x = r.command_file(group[desc["late_x"]], cmds[0], "x644")
        if desc.get("argmap") is not None:
            # one member of the group gets runtime arguments from its base argmap file
            r.write(os.path.join(group[desc["argmap"]], "monorail/argmap/base.json"), json.dumps({c_: ["--from-argmap", "x y"] for c_ in cmds}))
        groups, _ = sched.expected_groups(r, sn)
        viol = []
        c = sched.ctlmod.Controller(s)
        try:
            if "prior" in desc:
                # an earlier, uncontrolled run whose records are on disk when the judged run starts
                if desc["prior"] != "ok":
                    r.set_script(group[desc["prior"]], cmds[0], ["err " + b"prior failure\n".hex(), "exit 1"])
                pr = r.mr("run", *sn.args, env=r.trace_env())
                if pr.json() is None or (pr.code == 0) != (desc["prior"] == "ok"):
                    raise common.EngineError("c16: the prior run did not end as scripted: exit %s %s" % (pr.code, pr.err[:200]))
            if desc.get("listener"):
                # a `log tail` listener is attached for the whole run
                import p_listen
                p_listen.Listener(c, r, s, desc["listener"])
            if desc.get("foreign"):
                r.foreign_cwd()
            argv_, cwd_ = r.cmdline("run", *sn.args)
            p = c.spawn("run", argv_, cwd_, s.env(c.env()))
            released = 0
            rendezvous = 0
            blocked = False
            for cmd in cmds:
                for g in groups:
                    undef_names = {group[i] for i in (desc.get("undef") or [])}
                    want = {(cmd, t) for t in g if t not in undef_names}
                    # nobody is released until the whole group has arrived (each member "waits
                    # until all the others have started")
                    early_done = set()
                    if desc.get("early") and len(g) > 1:
                        # the first members of the group (in the order monorail lists them) finish at once,
                        # successfully, while the others are still being started; the rest rendezvous
                        early_names = set(list(g)[:desc["early"]])

                        def cond():
                            for ch in list(c.waiting()):
                                pr = sched.pair_of(r, ch)
                                if pr[1] in early_names and pr[0] == cmd:
                                    c.release(ch, 0)
                                    early_done.add(pr)
                            return ({sched.pair_of(r, ch) for ch in c.waiting()} | early_done) >= want or p.done()
                        ok = c.wait(cond, 10)
                    else:
                        ok = c.wait(lambda: {sched.pair_of(r, ch) for ch in c.waiting()} >= want or p.done(), 10)
                    have = {sched.pair_of(r, ch) for ch in c.waiting()} | early_done
                    if not (have >= want):
                        missing = sorted(want - have)
                        if p.done():
                            blocked = True  # the run ended by itself (a failure C06 owns): nothing to judge here
                        elif len(g) > 1:
                            viol.append(("group-member-not-started", "group of %d: %d member(s) not started while the others are still running, e.g. %s" % (len(g), len(missing), missing[:3])))
                        break
                    if len(g) == n or (pos == "chain" and len(g) > 1):
                        rendezvous += 1
                    for ch in list(c.waiting()):
                        c.release(ch, 0, ["chmod 755 " + late_x.encode().hex()] if (late_x and sched.pair_of(r, ch)[1] == "pre") else None)
                        released += 1
                    c.wait(lambda: not [ch for ch in c.children if ch.state == "released"] or p.done(), 10)
                if viol or blocked:
                    break
            c.wait(lambda: p.done(), 15 if not viol else 0.1)
            doc = sc.Result(p.code, p.out, p.err).json() if p.done() else None
            if not viol:
                if not p.done():
                    viol.append(("run-hung", "every member was released but the run did not finish"))
                elif p.code != 0 or doc is None or doc.get("failed"):
                    blocked = True  # statuses / exit code are C06's subject
                else:
                    succ = sum(1 for res in doc["results"] for grp in res["target_groups"] for v in grp.values() if v["status"] == "success")
                    if succ != (len(ts) - len(desc.get("undef") or [])) * ncmd:
                        viol.append(("wrong-success-count", "%d success entries, expected %d" % (succ, len(ts) * ncmd)))
            return {"evaluations": 1, "nontrivial": 1 if rendezvous >= ncmd else 0, "blocked": 1 if blocked else 0,
                    "violations": [{"sig": sig, "detail": d, "rank": n, "case": {"c16": desc}} for sig, d in viol],
                    "sample": {"group_size": n, "position": pos, "commands": ncmd, "groups": [len(g) for g in groups]}}
        finally:
            c.close()
    finally:
        s.cleanup()


# ------------------------------------------------------------------------------------------ C06 part A

FAULT_KINDS_Q = [("exit", 1), ("exit", 255), ("signal", 9), ("nox", None), ("noxlink", None), ("undef_flag", None), ("undef_noflag", None)]
FAULT_KINDS_T = [("exit", 1), ("exit", 2), ("exit", 127), ("exit", 255), ("signal", 9), ("signal", 11), ("signal", 15), ("nox", None), ("noxlink", None), ("undef_flag", None), ("undef_noflag", None)]


def c06_scenarios(tier):
    out = []
    shapes = ["chain3", "fork", "diamond", "independent3", "two_components", "nested_pair"] if tier == "quick" else list(SHAPES)
    kinds = FAULT_KINDS_Q if tier == "quick" else FAULT_KINDS_T
    cmds = ["build", "test"]
    for sh in shapes:
        ts = shape_targets(sh)
        paths = [t["path"] for t in ts]
        positions = [(c, t) for c in cmds for t in paths]
        # single faults at every position, every kind
        for (c, t) in positions:
            for kind, code in kinds:
                out.append(("c06", {"shape": sh, "faults": [[c, t, kind, code]]}, {}))
        # pairs of faults (exit 1 + each kind) within one command, quick: first command only
        pair_cmds = cmds if tier != "quick" else cmds[:1]
        for c in pair_cmds:
            for t1, t2 in itertools.combinations(paths, 2):
                for kind, code in (kinds if tier != "quick" else [("exit", 2), ("nox", None)]):
                    out.append(("c06", {"shape": sh, "faults": [[c, t1, "exit", 1], [c, t2, kind, code]]}, {}))
        # no fault at all: failed=false, exit 0
        out.append(("c06", {"shape": sh, "faults": []}, {}))
        # a failure among children that have closed (redirected) their output streams and keep running
        for (c_, t_) in (positions[0], positions[len(positions) // 2]):
            out.append(("c06", {"shape": sh, "faults": [[c_, t_, "exit", 1]], "close_streams": True}, {"max_dev": 1 if tier == "quick" else 2}))
        # children whose output is not valid UTF-8 (Latin-1 text, raw binary): no failure of any kind
        out.append(("c06", {"shape": sh, "faults": [], "binary_output": True}, {"max_dev": 0}))
        out.append(("c06", {"shape": sh, "faults": [[positions[-1][0], positions[-1][1], "exit", 3]], "binary_output": True}, {"max_dev": 0}))
        if sh == "fork":
            # every exit code 1..255 at one position (quick: first command; thorough: also the last position)
            for code in range(1, 256):
                for (c, t) in ([positions[0]] if tier == "quick" else [positions[0], positions[-1]]):
                    out.append(("c06", {"shape": sh, "faults": [[c, t, "exit", code]]}, {"max_dev": 0}))
        # the same with an earlier run's records on disk / a listener attached
        for ctx in ([["prior-failed"], ["listener"], ["foreign"], ["verbose"]] if tier == "quick" else [["prior-failed"], ["prior-ok"], ["listener"], ["prior-failed", "listener"], ["foreign"], ["foreign", "listener"], ["verbose"]]):
            out.append(("c06", {"shape": sh, "faults": []}, {"context": ctx}))
            for (c, t) in (positions[0], positions[-1]):
                out.append(("c06", {"shape": sh, "faults": [[c, t, "exit", 1]]}, {"context": ctx}))
    return out


def c06_build(desc):
    sn = _c06_build(desc)
    sn.binary_output = bool(desc.get("binary_output"))
    sn.close_streams = desc.get("close_streams") or False
    return sn


def _c06_build(desc):
    ts = shape_targets(desc["shape"])
    cmds = ["build", "test"]
    modes = all_x(ts, cmds)
    faults = {}
    flag = False
    for c, t, kind, code in desc["faults"]:
        if kind == "exit":
            faults[(c, t)] = code
        elif kind == "signal":
            faults[(c, t)] = -code   # the process dies by this signal: it never exits with a code
        elif kind in ("nox", "noxlink"):
            modes[(t, c)] = kind
        else:
            modes[(t, c)] = None
            if kind == "undef_flag":
                flag = True
    args = ["-c"] + cmds + (["--fail-on-undefined"] if flag else [])
    sn = sched.Scenario("%s/%s" % (desc["shape"], json.dumps(desc["faults"])), ts, modes, args, cmds,
                        faults=faults, fail_on_undefined=flag, max_group_perm=3)
    return sn


def c06_monitor(sn):
    cidx = {c: i for i, c in enumerate(sn.commands)}

    def mon(ex):
        out = []
        doc = ex.doc
        if doc is None:
            out.append(("no-result-document", "exit %s, stderr %s" % (ex.code, ex.stderr[:300])))
            return out
        # what actually happened, from the driver's own log
        trig = False
        signalled = False
        for pr, code in ex.codes.items():
            if code > 0:
                trig = True
            elif code < 0:
                signalled = True   # killed by a signal: the statement speaks about exit codes only
        entries = {}
        order = []
        for res in doc.get("results", []):
            for gi, grp in enumerate(res.get("target_groups", [])):
                for t, v in grp.items():
                    entries[(res["command"], t)] = (gi, v)
                    order.append((res["command"], gi, t))
        for (c, t), (gi, v) in entries.items():
            st = v.get("status")
            arrived = (c, t) in ex.arrive
            if st in ("not_executable",) or (st == "undefined" and sn.fail_on_undefined):
                trig = True
            if st == "success":
                if arrived and ex.codes.get((c, t), 0) < 0:
                    out.append(("false-success", "%s:%s reported success (code %s) but the process was killed by signal %d and never ran to completion" % (c, t, v.get("code"), -ex.codes[(c, t)])))
                elif not arrived or ex.codes.get((c, t)) != 0:
                    out.append(("false-success", "%s:%s reported success but %s" % (c, t, "no process was started" if not arrived else "it was released with code %s" % ex.codes.get((c, t)))))
            elif st == "error" and "code" in v and v["code"] is not None:
                if ex.codes.get((c, t)) != v["code"]:
                    out.append(("wrong-exit-code", "%s:%s reported error code %s but exited with %s" % (c, t, v["code"], ex.codes.get((c, t)))))
            elif st in ("undefined", "not_executable", "skipped"):
                if arrived:
                    out.append(("process-started-for-" + st, "%s:%s reported %s but a process was started" % (c, t, st)))
            # truthfulness of the recorded mode
            m = sn.cmdmodes.get((t, c))
            if m in ("nox", "noxlink") and st not in ("not_executable", "skipped"):
                out.append(("nox-misreported", "%s:%s has no x bit but is reported %s" % (c, t, st)))
            if m is None and st not in ("undefined", "skipped"):
                out.append(("undefined-misreported", "%s:%s is undefined but reported %s" % (c, t, st)))
        for (c, t), code in ex.codes.items():
            if code > 0:
                e = entries.get((c, t))
                if e is None or e[1].get("status") != "error" or e[1].get("code") != code:
                    out.append(("failure-not-reported", "%s:%s exited %s but entry is %s" % (c, t, code, e and e[1])))
        if signalled and not trig:
            # a signal death is not an "exit with a non-zero code": either outcome is accepted, but flag
            # and exit status must agree with each other
            if ex.code != (1 if doc.get("failed") else 0):
                out.append(("exit-status-wrong", "failed=%s but process exit status %s" % (doc.get("failed"), ex.code)))
            trig = bool(doc.get("failed"))
        else:
            if bool(doc.get("failed")) != trig:
                out.append(("failed-flag-wrong", "failed=%s but trigger occurred=%s" % (doc.get("failed"), trig)))
            want_code = 1 if trig else 0
            if ex.code != want_code:
                out.append(("exit-status-wrong", "process exit status %s, expected %s (stderr %s)" % (ex.code, want_code, ex.stderr[:200])))
        if trig:
            # the first trigger: earliest failing release / scheduling fault in plan order
            first = None
            for (c, gi, t) in order:
                gi_, v = entries[(c, t)]
                st = v["status"]
                if (st == "error" and ex.codes.get((c, t), 0) > 0) or st == "not_executable" or (st == "undefined" and sn.fail_on_undefined):
                    key = (cidx.get(c, 99), gi)
                    if first is None or key < first:
                        first = key
            if first is not None:
                for (c, gi, t) in order:
                    if (cidx.get(c, 99), gi) > first:
                        gi_, v = entries[(c, t)]
                        if (c, t) in ex.arrive:
                            out.append(("started-after-failure", "%s:%s (group %d) was started although an earlier group/command had failed" % (c, t, gi)))
                        if v["status"] != "skipped":
                            out.append(("later-not-skipped", "%s:%s (group %d) is %s, expected skipped" % (c, t, gi, v["status"])))
        if ex.timeout:
            out.append(("run-hung", "run did not finish within the horizon"))
        return out
    return mon


# ------------------------------------------------------------------------------------------ C06 part B
# internal orderings at guarded points: a constraint (a, b) holds hit b until hit a has been seen.

def c06b_scenarios(tier):
    out = []
    ns = [1, 2, 3] if tier == "quick" else [1, 2, 3, 4]
    for n in ns:
        hits_a = [("compressor.gone:%d" % x, occ) for x in (0, 1) for occ in (0, 1)]
        hits_b = [("group.pre_shutdown:%d" % i, occ) for i in range(2 * n) for occ in (0, 1)]
        singles = []
        for a in hits_a:
            for b in hits_b:
                if a[1] != b[1]:
                    continue  # the two hits must belong to the same group of the plan
                x = int(a[0].split(":")[1])
                i = int(b[0].split(":")[1])
                if i <= x or (b[1] == 1 and i >= 2):
                    # thread x cannot exit before the send that shuts it down (send x) was made;
                    # the second group of the plan has a single member, i.e. sends 0 and 1 only
                    continue
                singles.append([list(a), list(b)])
        out.append(("c06b", {"n": n, "constraints": []}, {}))
        for c1 in singles:
            out.append(("c06b", {"n": n, "constraints": [c1]}, {}))
        # pairs of constraints (deviation bound 2)
        pairs = list(itertools.combinations(singles, 2))
        if tier == "quick":
            pairs = pairs[:: max(1, len(pairs) // 12)]
        for c1, c2 in pairs:
            out.append(("c06b", {"n": n, "constraints": [c1, c2]}, {}))
    return out


def c06b_task(desc):
    n = desc["n"]
    ts, group = c16_build(n, "first")  # group of n, then one target depending on all of them
    sn = sched.Scenario("shutdown-order/n%d" % n, ts, all_x(ts, ["build"]), ["-c", "build"], ["build"])
    s = sc.Scratch("c06b")
    try:
        r = sched.build_repo(s, sn)
        for t in ts:
            r.set_script(t["path"], "build", ["out " + sched.ctlmod.hexs("out of %s\n" % t["path"]), "exit 0"])
        c = sched.ctlmod.Controller(s)
        try:
            cons = [((a[0], a[1]), (b[0], b[1])) for a, b in desc["constraints"]]
            seen = {}      # name -> occurrences so far
            seen_hits = set()
            held = []      # (hit, key, deadline)
            realised = {k: False for k in cons}

            def on_hit(h):
                occ = seen.get(h.name, 0)
                seen[h.name] = occ + 1
                key = (h.name, occ)
                h.key = key
                seen_hits.add(key)
                waits = [a for (a, b) in cons if b == key and a not in seen_hits]
                if waits:
                    held.append((h, key, time.time() + 2.0))
                    return None
                for (a, b) in cons:
                    if b == key and a in seen_hits:
                        realised[(a, b)] = True
                return b"c"
            c.auto_points = on_hit
            env = s.env(c.env(points=["group.pre_shutdown", "compressor.gone"], children=False))
            env.update(r.trace_env())
            p = c.spawn("run", [common.MONORAIL, "run", "-c", "build"], r.dir, env)
            t_end = time.time() + 30
            while not p.done() and time.time() < t_end:
                c.pump(0.01)
                for item in list(held):
                    h, key, deadline = item
                    pending = [a for (a, b) in cons if b == key and a not in seen_hits]
                    if not pending:
                        for (a, b) in cons:
                            if b == key:
                                realised[(a, b)] = True
                        held.remove(item)
                        c.resume(h, b"c")
                    elif time.time() > deadline:
                        held.remove(item)
                        c.resume(h, b"c")
            viol = []
            res = sc.Result(p.code, p.out, p.err)
            doc = res.json()
            if not p.done():
                viol.append(("run-hung", "run did not finish under constraints %s" % desc["constraints"]))
            elif p.code != 0 or doc is None or doc.get("failed"):
                e = res.err_json() or {}
                sig = "shutdown-after-thread-exit" if "channel closed" in json.dumps(e) else "spurious-failure"
                viol.append((sig, "all commands succeed but exit status %s, failed=%s, stderr %s" % (p.code, doc and doc.get("failed"), p.err[:200])))
            else:
                bad = [(t, v["status"]) for cr in doc["results"] for g in cr["target_groups"] for t, v in g.items() if v["status"] != "success"]
                if bad:
                    viol.append(("spurious-status", "statuses %s" % bad))
                # stored logs complete
                for t in ts:
                    h = doc["out"]["run"]["targets"].get(t["path"])
                    try:
                        data = sc.zstd_cat(os.path.join(doc["out"]["run"]["path"], "build", h, "stdout.zst"))
                    except Exception as e2:
                        data = ("<%s>" % e2).encode()
                    if data != ("out of %s\n" % t["path"]).encode():
                        viol.append(("log-incomplete", "stored stdout of %s is %r" % (t["path"], data[:80])))
            nreal = sum(1 for v in realised.values() if v)
            return {"evaluations": 1, "nontrivial": 1 if cons and nreal == len(cons) else 0,
                    "states": len(seen_hits), "transitions": len(c.hits),
                    "unrealised": len(cons) - nreal,
                    "violations": [{"sig": sig, "detail": d, "rank": 100 * n + len(cons), "case": {"c06b": desc}} for sig, d in viol],
                    "sample": {"n": n, "constraints": desc["constraints"], "realised": nreal, "point_hits": [h.name for h in c.hits][:12]}}
        finally:
            c.close()
    finally:
        s.cleanup()


def c06d_task(desc):
    """No failure anywhere, but one member of a group exits while a process it started still holds its
    output streams open (a daemon, `sleep 3 &`), and a sibling is still running at that time. Nothing
    failed, so the run reports failed=false, exits 0, every entry is `success` and the dependent group runs."""
    n, linger_ms, sibling_ms = desc["n"], desc["linger_ms"], desc["sibling_ms"]
    ts = [{"path": "g%d" % i} for i in range(n)] + [{"path": "post", "uses": ["g%d" % i for i in range(n)]}]
    s = sc.Scratch("c06d")
    try:
        r = sc.Repo(s, "r", ts, commands={t["path"]: {"build": "x"} for t in ts}, init_git=False)
        c = sched.ctlmod.Controller(s)
        try:
            p = c.spawn("run", [common.MONORAIL, "run", "-c", "build"], r.dir, s.env(c.env()))
            c.wait(lambda: len(c.waiting()) >= n or p.done(), 15)
            grp = sorted(c.waiting(), key=lambda ch: ch.cwd)
            if len(grp) < n:
                return {"engine_error": "group did not arrive (exit %s %s)" % (p.code, p.err[:200])}
            t0 = time.time()
            c.release(grp[0], 0, ["out " + b"starting a helper\n".hex(), "bg %d" % linger_ms])
            c.wait(lambda: grp[0].state == "gone", 5)
            c.wait(lambda: p.done(), max(0.0, sibling_ms / 1000.0 - (time.time() - t0)))
            for ch in grp[1:]:
                c.release(ch, 0, ["out " + b"sibling done\n".hex()])
            t_end = time.time() + 20
            started_post = False
            while not p.done() and time.time() < t_end:
                c.pump(0.01)
                for ch in list(c.waiting()):
                    started_post = True
                    c.release(ch, 0)
            viol = []
            if not p.done():
                c.kill(p, group=True)
                c.wait(lambda: p.done(), 5)
                viol.append(("run-hung", "the run did not finish"))
            doc = sc.Result(p.code, p.out, p.err).json()
            if doc is None:
                viol.append(("no-result-document", "exit %s %s" % (p.code, p.err[:200])))
            else:
                st = {t: v for cr in doc["results"] for g in cr["target_groups"] for t, v in g.items()}
                bad = {t: v for t, v in st.items() if v.get("status") != "success" or v.get("code") != 0}
                if doc.get("failed") or p.code != 0:
                    viol.append(("spurious-failure", "every executable exited 0 (one left a helper holding its output open for %d ms, its sibling ran %d ms): failed=%s, exit status %s" % (linger_ms, sibling_ms, doc.get("failed"), p.code)))
                if bad:
                    viol.append(("spurious-status", "every executable exited 0 but the document reports %s" % bad))
                if not started_post and not viol:
                    viol.append(("later-group-not-started", "the dependent target was never started"))
            return {"evaluations": 1, "nontrivial": 1, "states": 1, "transitions": 1, "unrealised": 0,
                    "violations": [{"sig": sig, "detail": d, "rank": 600 + n, "case": {"c06d": desc}} for sig, d in viol],
                    "sample": {"lingering_helper_ms": linger_ms, "sibling_ms": sibling_ms}}
        finally:
            c.close()
    except common.EngineError as e:
        return {"engine_error": str(e)}
    finally:
        s.cleanup()


def c06e_task(desc):
    """A command of an earlier group changes the execute permission of a later target's command file
    during the same run. What counts is the file as it is when its turn comes: without the bit the target
    is `not_executable`, the run fails with exit 1 and nothing later starts; with the bit it runs."""
    direction = desc["direction"]
    ts = [{"path": "a"}, {"path": "b", "uses": ["a"]}, {"path": "c", "uses": ["b"]}]
    s = sc.Scratch("c06e")
    try:
        r = sc.Repo(s, "r", ts, commands={"a": {"build": "x"}, "b": {"build": "x755" if direction == "revoke" else "x644"}, "c": {"build": "x"}}, init_git=False)
        bfile = r.path("b/monorail/cmd/build.sh")
        r.set_script("a", "build", ["chmod %s %s" % ("644" if direction == "revoke" else "755", bfile.encode().hex()), "exit 0"])
        res = r.mr("run", "-c", "build", env=r.trace_env())
        doc = res.json()
        started = sorted({r.target_pair(t)[0] for t in r.traces()})
        viol = []
        if doc is None:
            viol.append(("no-result-document", "an earlier command changed the execute bit of a later command file (%s): exit %s %s" % (direction, res.code, res.err[:200])))
        else:
            st = {t: v for cr in doc["results"] for g in cr["target_groups"] for t, v in g.items()}
            if direction == "revoke":
                if not doc.get("failed") or res.code != 1:
                    viol.append(("failed-flag-wrong", "b lost its execute bit before its turn: failed=%s exit %s" % (doc.get("failed"), res.code)))
                if (st.get("b") or {}).get("status") != "not_executable" or (st.get("c") or {}).get("status") != "skipped":
                    viol.append(("status-wrong", "b lost its execute bit before its turn: statuses %s" % st))
                if "b" in started or "c" in started:
                    viol.append(("started-after-failure", "started %s" % started))
            else:
                if doc.get("failed") or res.code != 0 or any((v or {}).get("status") != "success" for v in st.values()):
                    viol.append(("spurious-failure", "b gained its execute bit before its turn (a bootstrap step): failed=%s exit %s statuses %s" % (doc.get("failed"), res.code, st)))
                if started != ["a", "b", "c"]:
                    viol.append(("not-started", "started %s, expected a, b, c" % started))
        return {"evaluations": 1, "nontrivial": 1, "states": 1, "transitions": 1, "unrealised": 0,
                "violations": [{"sig": sig, "detail": d, "rank": 650, "case": {"c06e": desc}} for sig, d in viol],
                "sample": {"execute_bit": direction}}
    except common.EngineError as e:
        return {"engine_error": str(e)}
    finally:
        s.cleanup()


def c06f_modes(tier):
    every = list(range(0o1000))
    if os.geteuid() != 0:
        # an unprivileged user can only start a file whose owner bits allow it, and /bin/sh has to read it
        every = [m for m in every if m & 0o400 and (bool(m & 0o100) == bool(m & 0o111))]
    if tier == "quick":
        pick = {0o755, 0o644, 0o700, 0o750, 0o550, 0o510, 0o500, 0o600, 0o664, 0o666, 0o444, 0o440, 0o400, 0o100, 0o010, 0o001,
                0o111, 0o711, 0o744, 0o775, 0o777, 0o640, 0o660, 0o222, 0o200, 0o020, 0o002, 0o555, 0o505, 0o540, 0o504, 0o410,
                0o401, 0o610, 0o601, 0o454, 0o445, 0o554, 0o545, 0o770, 0o707, 0o077, 0o070, 0o007, 0o766, 0o676, 0o667, 0o000}
        every = [m for m in every if m in pick]
    # files with an execute bit: many per run (nothing fails); files without any: one per run next to an
    # ordinary sibling (after the first failure the members of a group not yet looked at are `skipped`,
    # which would hide the others)
    xs = [m for m in every if m & 0o111]
    return [xs[i:i + 64] for i in range(0, len(xs), 64)] + [[0o755, m] for m in every if not m & 0o111]


def c06f_task(desc):
    """Every permission mode of a command file: the file is started exactly when it carries an execute
    bit; a file without any is `not_executable`, fails the run with exit 1 and is never started. One
    run per chunk of modes, one flat target per mode, plus a dependent target that must be skipped
    exactly when the chunk contains a mode without an execute bit."""
    modes = desc["modes"]
    ts = [{"path": "m%03o" % m} for m in modes] + [{"path": "post", "uses": ["m%03o" % m for m in modes]}]
    s = sc.Scratch("c06f")
    try:
        r = sc.Repo(s, "r", ts, commands={"post": {"build": "x"}}, init_git=False)
        for m in modes:
            f = r.path("m%03o/monorail/cmd/build.sh" % m)
            os.makedirs(os.path.dirname(f), exist_ok=True)
            with open(f, "w") as fh:
                fh.write("#!/bin/sh\necho started > started.txt\nexit 0\n")
            os.chmod(f, m)
        res = r.mr("run", "-c", "build", env=r.trace_env())
        doc = res.json()
        viol = []
        anynox = any(not (m & 0o111) for m in modes)
        if doc is None:
            viol.append(("no-result-document", "command files with modes %s: exit %s %s" % (" ".join("%03o" % m for m in modes), res.code, res.err[:200])))
        else:
            st = {t: v for cr in doc["results"] for g in cr["target_groups"] for t, v in g.items()}
            for m in modes:
                name = "m%03o" % m
                started = os.path.exists(r.path(name + "/started.txt"))
                v = st.get(name) or {}
                if m & 0o111:
                    ok = v.get("status") == "success" and v.get("code") == 0 and started
                    if anynox and v.get("status") == "skipped" and not started:
                        ok = True   # a member of the failing group that was not looked at any more
                    if not ok:
                        viol.append(("status-wrong", "a command file with mode %03o has an execute bit and exits 0: reported %s, started=%s" % (m, v, started)))
                else:
                    if v.get("status") != "not_executable" or started:
                        viol.append(("status-wrong", "a command file with mode %03o has no execute bit: reported %s, started=%s" % (m, v, started)))
            pv = st.get("post") or {}
            pstarted = any(r.target_pair(x)[0] == "post" for x in r.traces())
            if bool(doc.get("failed")) != anynox or res.code != (1 if anynox else 0):
                viol.append(("failed-flag-wrong", "modes %s: failed=%s, exit status %s" % (" ".join("%03o" % m for m in modes), doc.get("failed"), res.code)))
            if anynox and (pv.get("status") != "skipped" or pstarted):
                viol.append(("later-group-not-skipped", "the dependent target is reported %s, started=%s" % (pv, pstarted)))
            if not anynox and (pv.get("status") != "success" or not pstarted):
                viol.append(("status-wrong", "the dependent target is reported %s, started=%s in a run without failure" % (pv, pstarted)))
        return {"evaluations": 1, "nontrivial": 1, "states": len(modes), "transitions": len(modes), "unrealised": 0,
                "violations": [{"sig": sig, "detail": d, "rank": 660, "case": {"c06f": desc}} for sig, d in viol[:6]],
                "sample": {"permission_modes": len(modes)}}
    except common.EngineError as e:
        return {"engine_error": str(e)}
    finally:
        s.cleanup()


def c06g_task(desc):
    """Runtime arguments (-a, which needs exactly one command and one named target) do not change what counts
    as a failure: a dependency pulled in by --deps that does not define the command is `undefined`, which fails
    the run only with --fail-on-undefined."""
    undef, flag, use_args = desc["undef"], desc["flag"], desc["args"]
    ts = [{"path": "base"}, {"path": "lib", "uses": ["base"]}, {"path": "app", "uses": ["lib"]}]
    s = sc.Scratch("c06g")
    try:
        cmds = {t["path"]: {"build": "x"} for t in ts if t["path"] != undef}
        r = sc.Repo(s, "r", ts, commands=cmds, init_git=False)
        argv = ["run", "-c", "build", "-t", "app", "--deps"] + (["-a", "v1", "v 2"] if use_args else []) + (["--fail-on-undefined"] if flag else [])
        res = r.mr(*argv, env=r.trace_env())
        doc = res.json()
        started = sorted({r.target_pair(x)[0] for x in r.traces()})
        viol = []
        label = "%s (%s)" % (" ".join(argv), "every target defines build" if undef is None else "%s does not define build" % undef)
        if doc is None:
            viol.append(("no-result-document", "%s: exit %s %s" % (label, res.code, res.err[:200])))
        else:
            st = {t: v.get("status") for cr in doc["results"] for g in cr["target_groups"] for t, v in g.items()}
            trig = bool(flag and undef)
            if bool(doc.get("failed")) != trig or res.code != (1 if trig else 0):
                viol.append(("failed-flag-wrong", "%s: failed=%s, exit status %s, statuses %s" % (label, doc.get("failed"), res.code, st)))
            order = ["base", "lib", "app"]
            for i, tn in enumerate(order):
                after_trigger = trig and i > order.index(undef)
                want = "undefined" if tn == undef else "skipped" if after_trigger else "success"
                if st.get(tn) != want or ((tn in started) != (want == "success")):
                    viol.append(("status-wrong", "%s: %s is reported %s (started=%s), expected %s" % (label, tn, st.get(tn), tn in started, want)))
        return {"evaluations": 1, "nontrivial": 1, "states": 1, "transitions": 1, "unrealised": 0,
                "violations": [{"sig": sig, "detail": d, "rank": 670, "case": {"c06g": desc}} for sig, d in viol[:4]],
                "sample": {"args_with_deps": desc}}
    except common.EngineError as e:
        return {"engine_error": str(e)}
    finally:
        s.cleanup()


def c04_long_task(desc):
    """One executable keeps running for a long time (longer than any period a progress report or watchdog
    inside monorail might use: 31 s, thorough also 65 s and 125 s) while everything that depends on it - the
    dependent target and the whole next command - waits: nothing else may start in the meantime."""
    hold_s = desc["hold_s"]
    ts = [{"path": "lib"}, {"path": "app", "uses": ["lib"]}]
    s = sc.Scratch("c04long")
    try:
        r = sc.Repo(s, "r", ts, commands={t["path"]: {"build": "x", "test": "x"} for t in ts}, init_git=False)
        c = sched.ctlmod.Controller(s)
        try:
            p = c.spawn("run", [common.MONORAIL, "run", "-c", "build", "test"], r.dir, s.env(c.env()))
            viol = []
            order = []
            expected = [("build", "lib"), ("build", "app"), ("test", "lib"), ("test", "app")]
            for i, (cmd, tn) in enumerate(expected):
                c.wait(lambda: len(c.waiting()) >= 1 or p.done(), 20)
                w = list(c.waiting())
                if not w:
                    viol.append(("run-ended-early", "the run ended (exit %s) before %s:%s was started: %s" % (p.code, cmd, tn, p.err[:200])))
                    break
                got = [(os.path.basename(ch.argv[0]).split(".")[0], os.path.relpath(ch.cwd, r.dir)) for ch in w]
                if got != [(cmd, tn)]:
                    viol.append(("started-before-dependency-exited", "waiting executables %s, expected only %s:%s" % (got, cmd, tn)))
                    break
                if i == desc.get("slow", 0):
                    t_end = time.time() + hold_s
                    while time.time() < t_end and len(c.waiting()) == 1 and not p.done():
                        c.pump(0.05)
                    others = [(os.path.basename(ch.argv[0]).split(".")[0], os.path.relpath(ch.cwd, r.dir)) for ch in c.waiting() if ch is not w[0]]
                    if others or p.done():
                        viol.append(("started-before-dependency-exited", "%s:%s had been running for %.0f s (of %d) when %s" % (
                            cmd, tn, hold_s - max(0, t_end - time.time()), hold_s, ("%s was started" % others) if others else "the run ended with exit %s" % p.code)))
                        break
                order.append((cmd, tn))
                c.release(w[0], 0, ["out " + ("%s of %s\n" % (cmd, tn)).encode().hex()])
                c.wait(lambda: w[0].state == "gone", 5)
            for ch in list(c.waiting()):
                c.release(ch, 0)
            c.wait(lambda: p.done(), 20)
            if not p.done():
                c.kill(p, group=True)
                c.wait(lambda: p.done(), 5)
                viol.append(("run-hung", "the run did not finish"))
            doc = sc.Result(p.code, p.out, p.err).json()
            if not viol:
                st = {(cr["command"], t_): v.get("status") for cr in (doc or {}).get("results", []) for g in cr["target_groups"] for t_, v in g.items()}
                if doc is None or doc.get("failed") or p.code != 0 or any(st.get(k) != "success" for k in expected):
                    viol.append(("slow-run-misreported", "every executable exited 0 (one after %d s): exit %s, failed=%s, statuses %s" % (hold_s, p.code, doc and doc.get("failed"), st)))
            return {"evaluations": 1, "nontrivial": 1, "states": len(order), "transitions": len(order),
                    "violations": [{"sig": sig, "detail": d, "rank": 700, "case": {"c04long": desc}} for sig, d in viol],
                    "sample": {"long_running_executable_s": hold_s}}
        finally:
            c.close()
    except common.EngineError as e:
        return {"engine_error": str(e)}
    finally:
        s.cleanup()


def c06h_task(desc):
    """A failure inside a very wide group (more members than any batch size monorail might use internally:
    130, 257, thorough also 513): whichever member fails, the run reports failed=true, exits 1, the dependent
    target is skipped and nothing of the next command is started."""
    n, k = desc["n"], desc["fail"]
    names = ["t%03d" % i for i in range(n)]
    ts = [{"path": p_} for p_ in names] + [{"path": "zpost", "uses": list(names)}]   # (depends on every member, so that the members form one group)
    s = sc.Scratch("c06h")
    try:
        r = sc.Repo(s, "r", ts, commands={t["path"]: {"build": "x", "test": "x"} for t in ts}, init_git=False)
        r.set_script(names[k], "build", ["err " + b"member fails\n".hex(), "exit 7"])
        res = r.mr("run", "-c", "build", "test", env=r.trace_env(), timeout=300)
        doc = res.json()
        started = {}
        for rec in r.traces():
            t_, c_ = r.target_pair(rec)
            started.setdefault(c_, set()).add(t_)
        viol = []
        if doc is None:
            viol.append(("no-result-document", "group of %d, member %d exits 7: exit %s %s" % (n, k, res.code, res.err[:200])))
        else:
            st = {(cr["command"], t_): v for cr in doc["results"] for g in cr["target_groups"] for t_, v in g.items()}
            fv = st.get(("build", names[k])) or {}
            if fv.get("status") != "error" or fv.get("code") != 7:
                viol.append(("failure-not-reported", "group of %d: member %s exited 7 but is reported %s" % (n, names[k], fv)))
            if not doc.get("failed") or res.code != 1:
                viol.append(("failed-flag-wrong", "group of %d, member #%d (%s) exits 7: failed=%s, exit status %s" % (n, k, names[k], doc.get("failed"), res.code)))
            if (st.get(("build", "zpost")) or {}).get("status") != "skipped" or "zpost" in started.get("build", set()):
                viol.append(("later-group-not-skipped", "group of %d, member #%d fails: the dependent target is reported %s, started=%s" % (n, k, st.get(("build", "zpost")), "zpost" in started.get("build", set()))))
            nts = [t_ for (c_, t_), v in st.items() if c_ == "test" and v.get("status") != "skipped"]
            if nts or started.get("test"):
                viol.append(("later-command-not-skipped", "group of %d, member #%d fails: %d entries of the next command are not `skipped`, %d of its executables were started" % (n, k, len(nts), len(started.get("test", ())))))
        return {"evaluations": 1, "nontrivial": 1, "states": n, "transitions": n, "unrealised": 0,
                "violations": [{"sig": sig, "detail": d, "rank": 680, "case": {"c06h": desc}} for sig, d in viol],
                "sample": {"wide_group": n, "failing_member": k}}
    except common.EngineError as e:
        return {"engine_error": str(e)}
    finally:
        s.cleanup()


def c06i_task(desc):
    """The process may use one, two or three CPUs only (taskset, a small container): a run in which nothing fails
    reports failed=false and exits 0, a run in which the middle target of a chain exits 7 reports that, exits 1
    and skips the rest."""
    ncpu, fail = desc["cpus"], desc["fail"]
    allowed = sorted(os.sched_getaffinity(0))
    if len(allowed) < ncpu:
        return {"evaluations": 0, "nontrivial": 0, "states": 0, "transitions": 0, "unrealised": 0, "violations": [], "sample": {"skipped": "fewer CPUs available"}}
    cpus = set(allowed[-ncpu:])
    ts = [{"path": "a"}, {"path": "b", "uses": ["a"]}, {"path": "c", "uses": ["b"]}, {"path": "d"}]
    s = sc.Scratch("c06i")
    try:
        r = sc.Repo(s, "r", ts, commands={t["path"]: {"build": "x", "test": "x"} for t in ts}, init_git=False)
        for t_ in ts:
            r.set_script(t_["path"], "build", ["out " + ("build of %s\n" % t_["path"]).encode().hex(), "exit 0"])
        if fail:
            r.set_script("b", "build", ["err " + b"b fails\n".hex(), "exit 7"])
        res = r.mr("run", "-c", "build", "test", env=r.trace_env(), cpus=cpus)
        doc = res.json()
        started = sorted({"%s:%s" % (r.target_pair(x)[1], r.target_pair(x)[0]) for x in r.traces()})
        viol = []
        label = "with %d usable CPU(s), %s" % (ncpu, "b exits 7" if fail else "nothing fails")
        if doc is None:
            viol.append(("no-result-document", "%s: exit %s %s" % (label, res.code, res.err[-300:])))
        else:
            st = {(cr["command"], t_): v for cr in doc["results"] for g in cr["target_groups"] for t_, v in g.items()}
            if bool(doc.get("failed")) != fail or res.code != (1 if fail else 0):
                viol.append(("failed-flag-wrong", "%s: failed=%s, exit status %s" % (label, doc.get("failed"), res.code)))
            if fail:
                if (st.get(("build", "b")) or {}).get("code") != 7 or (st.get(("build", "c")) or {}).get("status") != "skipped" or "build:c" in started or any(x.startswith("test:") for x in started):
                    viol.append(("status-wrong", "%s: statuses %s, started %s" % (label, {("%s:%s" % k): v.get("status") for k, v in st.items()}, started)))
            elif any(v.get("status") != "success" for v in st.values()) or len(started) != 8:
                viol.append(("status-wrong", "%s: statuses %s, started %s" % (label, {("%s:%s" % k): v.get("status") for k, v in st.items()}, started)))
        return {"evaluations": 1, "nontrivial": 1, "states": 1, "transitions": 1, "unrealised": 0,
                "violations": [{"sig": sig, "detail": d, "rank": 690, "case": {"c06i": desc}} for sig, d in viol],
                "sample": {"usable_cpus": ncpu, "fail": fail}}
    except common.EngineError as e:
        return {"engine_error": str(e)}
    finally:
        s.cleanup()


def c06c_task(desc):
    """C06 under delays of the compressor threads (guarded point compressor.loop): the scenario of
    p_c08.order_task judged for the failed flag, exit status, statuses and skipping."""
    import p_c08
    x = p_c08.order_task(desc)
    if "engine_error" in x:
        return x
    n, fail = desc["n"], desc["fail"]
    viol = []
    doc = x.get("doc")
    if doc is None:
        viol.append(("no-result-document", "policy %s: exit %s" % (desc["policy"], x.get("exit"))))
    else:
        want_failed = fail is not None
        if bool(doc.get("failed")) != want_failed:
            viol.append(("failed-flag-wrong", "policy %s, failing member %s: failed=%s" % (desc["policy"], fail, doc.get("failed"))))
        if x.get("exit") != (1 if want_failed else 0):
            viol.append(("exit-status-wrong", "policy %s, failing member %s: process exit status %s" % (desc["policy"], fail, x.get("exit"))))
        st = {t: v for cr in doc["results"] for g in cr["target_groups"] for t, v in g.items()}
        for i in range(n):
            t = "g%d" % i
            v = st.get(t) or {}
            if i == fail:
                if v.get("status") != "error" or v.get("code") != 1:
                    viol.append(("status-wrong", "policy %s: the member that exited 1 is reported %s" % (desc["policy"], v)))
            elif fail is None and (v.get("status") != "success" or v.get("code") != 0):
                viol.append(("status-wrong", "policy %s: %s exited 0 in a run without failure and is reported %s" % (desc["policy"], t, v)))
            elif v.get("status") == "success" and v.get("code") != 0:
                viol.append(("status-wrong", "policy %s: %s reported %s" % (desc["policy"], t, v)))
        pv = st.get("post") or {}
        if want_failed and (pv.get("status") != "skipped" or "post" in x.get("started", [])):
            viol.append(("later-group-not-skipped", "policy %s: the dependent target is reported %s, started=%s" % (desc["policy"], pv, "post" in x.get("started", []))))
        if not want_failed and pv.get("status") != "success":
            viol.append(("status-wrong", "policy %s: the dependent target is reported %s in a run without failure" % (desc["policy"], pv)))
    return {"evaluations": 1, "nontrivial": 1, "states": 1, "transitions": x.get("hits", 0), "unrealised": 0,
            "violations": [{"sig": sig, "detail": d, "rank": 500 + n, "case": {"c06c": desc}} for sig, d in viol],
            "sample": {"compressor_policy": desc["policy"], "failing_member": fail}}


# ------------------------------------------------------------------------------------------ C05 part A

def c05_scenarios(tier):
    out = []
    shapes = list(SHAPES)
    for sh in shapes:
        ts = shape_targets(sh)
        paths = [t["path"] for t in ts]
        n = len(paths)
        # per-target command definition patterns: which of build/test exist (x / nox / absent)
        patterns = [
            {},                                           # everything defined
            {(paths[0], "test"): None},                   # one target lacks test
            {(paths[-1], "build"): "nox"},                # one target has a non-executable build
            {(paths[0], "build"): "x700", (paths[-1], "build"): "x750", (paths[0], "test"): "x744"},   # executable, but not for everybody
        ]
        if tier != "quick":
            patterns.append({(p, "test"): None for p in paths[::2]})
        for pi, pat in enumerate(patterns):
            modes = all_x(ts, ["build", "test"])
            modes.update(pat)
            cmdlists = [(["-c", "build"], ["build"], None), (["-c", "build", "test"], ["build", "test"], None),
                        (["-s", "seq", "-c", "test"], ["build", "test"], {"seq": ["build"]})]
            if tier == "quick":
                cmdlists = cmdlists[:2] if pi else cmdlists
            if pi == 0:
                # a command that is asked for more than once is run that many times: named again after a
                # sequence that contains it, named twice, or through a sequence given twice
                cmdlists = cmdlists + [(["-s", "seq2", "-c", "build"], ["build", "test", "build"], {"seq2": ["build", "test"]}),
                                       (["-c", "build", "build"], ["build", "build"], None)]
                if tier != "quick":
                    cmdlists.append((["-s", "seq2", "seq2"], ["build", "test", "build", "test"], {"seq2": ["build", "test"]}))
            for args, cmds, seqs in cmdlists:
                sel = [("all", None, None, None, False)]
                subsets = []
                for k in range(0, n + 1):
                    for sub in itertools.combinations(paths, k):
                        subsets.append(list(sub))
                if tier == "quick":
                    subsets = subsets[:: max(1, len(subsets) // 4)]
                for sub in subsets:
                    sel.append(("changed", "head", sub, None, False))
                tsubs = [list(x) for k in range(1, n + 1) for x in itertools.combinations(paths, k)]
                if tier == "quick":
                    tsubs = tsubs[:: max(1, len(tsubs) // 3)]
                for si, sub in enumerate(tsubs):
                    sel.append(("explicit", None, None, sub, False))
                    sel.append(("explicit+deps", None, None, sub, True))
                    # explicit targets ignore the checkpoint: the same selections with a checkpoint
                    # present and nothing / something changed since
                    if pi == 0 and cmds == ["build"]:
                        for changed in ([], paths[:1], paths[-1:]) if (tier != "quick" or si == 0) else ([],):
                            sel.append(("explicit+cp", "head", changed, sub, False))
                            sel.append(("explicit+deps+cp", "head", changed, sub, True))
                for mname, cp, changed, explicit, deps in sel:
                    a = list(args)
                    if explicit:
                        a += ["-t"] + explicit + (["--deps"] if deps else [])
                    out.append(("c05", {"shape": sh, "modes": [[t, c, m] for (t, c), m in sorted(modes.items())], "args": a, "commands": cmds,
                                        "sequences": seqs, "checkpoint": cp, "changed": changed, "explicit": explicit, "deps": deps}, {}))
                    if pi == 0 and n > 1 and mname in ("all", "explicit+deps") and cmds == ["build"] and cp is None:
                        # explicit command definitions on a subset of targets, reversed declaration order
                        for defs in ([paths[0]], [paths[-1]], paths[::2]):
                            for stale in (False, True):
                                out.append(("c05", {"shape": sh, "modes": [[t, c, m] for (t, c), m in sorted(modes.items())], "args": a, "commands": cmds,
                                                    "sequences": seqs, "checkpoint": cp, "changed": changed, "explicit": explicit, "deps": deps,
                                                    "defs": defs, "stale": stale}, {}))
        # further flags that must not change what is selected: --no-base-argmaps (alone, and with -m naming a file nobody has)
        modes = all_x(ts, ["build", "test"])
        for extra in (["--no-base-argmaps"], ["--no-base-argmaps", "-m", "nobody-has-this"], ["-m", "nobody-has-this"]):
            for (explicit, deps) in ((paths[-1:], False), (paths, False), (paths[-1:], True), (None, False)):
                a = ["-c", "build"] + (["-t"] + explicit + (["--deps"] if deps else []) if explicit else []) + extra
                out.append(("c05", {"shape": sh, "modes": [[t, c, m] for (t, c), m in sorted(modes.items())], "args": a, "commands": ["build"],
                                    "sequences": None, "checkpoint": None, "changed": None, "explicit": explicit, "deps": deps}, {}))
        # retention settings at the lower end (0 and 1), several runs in a row in the same repository
        for maxr_ in (0, 1):
            for (explicit, deps) in ((None, False), (paths[-1:], True)):
                a = ["-c", "build", "test"] + (["-t"] + explicit + ["--deps"] if explicit else [])
                out.append(("c05", {"shape": sh, "modes": [[t, c, m] for (t, c), m in sorted(modes.items())], "args": a, "commands": ["build", "test"],
                                    "sequences": None, "checkpoint": None, "changed": None, "explicit": explicit, "deps": deps, "maxr": maxr_, "context": ["prior-ok"]}, {}))
        # --deps without -t adds nothing: still exactly the changed targets
        if len(paths) > 1:
            for changed in (paths[:1], paths[-1:]):
                out.append(("c05", {"shape": sh, "modes": [[t, c, m] for (t, c), m in sorted(modes.items())], "args": ["-c", "build", "--deps"], "commands": ["build"],
                                    "sequences": None, "checkpoint": "head", "changed": changed, "explicit": None, "deps": False}, {}))
        # runtime arguments (-a needs one command and one named target) do not change what is selected
        for explicit in (paths[-1:], paths[:1]):
            for deps in (True, False):
                a = ["-c", "build", "-t"] + explicit + (["--deps"] if deps else []) + ["-a", "v1", "v 2"]
                out.append(("c05", {"shape": sh, "modes": [[t, c, m] for (t, c), m in sorted(modes.items())], "args": a, "commands": ["build"],
                                    "sequences": None, "checkpoint": None, "changed": None, "explicit": explicit, "deps": deps}, {}))
        # an executable that dies by a signal (first target's first command / last target's last command)
        modes = all_x(ts, ["build", "test"])
        for (kt, kc) in ((paths[0], "build"), (paths[-1], "test")):
            for (explicit, deps) in ((None, False), (paths[-1:], True)):
                a = ["-c", "build", "test"] + (["-t"] + explicit + ["--deps"] if explicit else [])
                out.append(("c05", {"shape": sh, "modes": [[t, c, m] for (t, c), m in sorted(modes.items())], "args": a, "commands": ["build", "test"],
                                    "sequences": None, "checkpoint": None, "changed": None, "explicit": explicit, "deps": deps, "sigkill": [[kt, kc]]}, {}))
        # the surroundings of a run: an earlier failed / successful run's records on disk, a listener attached
        for ctx in ([["prior-failed"], ["listener"], ["verbose"]] if tier == "quick" else [["prior-failed"], ["prior-ok"], ["listener"], ["prior-failed", "listener"], ["verbose"]]):
            for (cp, changed, explicit, deps) in [(None, None, None, False), ("head", paths[-1:], None, False), (None, None, paths[-1:], True)]:
                a = ["-c", "build", "test"] + (["-t"] + explicit + ["--deps"] if explicit else [])
                out.append(("c05", {"shape": sh, "modes": [[t, c, m] for (t, c), m in sorted(modes.items())], "args": a, "commands": ["build", "test"],
                                    "sequences": None, "checkpoint": cp, "changed": changed, "explicit": explicit, "deps": deps, "context": ctx}, {}))
    return out


def c05_task(desc):
    ts = shape_targets(desc["shape"])
    modes = {(t, c): m for t, c, m in desc["modes"]}
    ext = []
    if desc.get("defs"):
        # the named targets define their commands through commands.definitions (explicit paths
        # outside the default directory); declaration order is reversed so that it differs from
        # the alphabetical order of the target paths
        for t in ts:
            if t["path"] in desc["defs"]:
                t["commands"] = {"definitions": {}}
                for c in ("build", "test"):
                    if modes.get((t["path"], c)) == "x":
                        t["commands"]["definitions"][c] = {"path": "ext/%s/%s.sh" % (t["path"], c)}
                        modes[(t["path"], c)] = None   # no file in the default directory
                        ext.append((t["path"], c))
        ts = list(reversed(ts))
    tm = tmap(ts)
    sn = sched.Scenario("c05", ts, modes, desc["args"], desc["commands"], checkpoint=desc["checkpoint"],
                        changed=desc["changed"] or [], sequences=desc["sequences"], explicit=desc["explicit"], deps=desc["deps"])
    s = sc.Scratch("c05")
    viol = []
    try:
        r = sched.build_repo(s, sn)
        if "maxr" in desc:
            # a retention setting of zero / one (how many runs are kept has nothing to do with what is run)
            r.cfg["max_retained_runs"] = desc["maxr"]
            r.write_cfg()
        for (t, c) in ext:
            r.command_file(t, c, "x", cmd_dir="ext/%s" % t, name="%s.sh" % c)
            modes[(t, c)] = "x"
            if desc.get("stale"):
                # the script the definition replaced is still lying in the default directory, under the command's name
                r.command_file(t, c, "x")
        if ext:
            r.commit("definitions")
            if desc["checkpoint"]:
                r.mr("checkpoint", "update")
                for t in desc["changed"] or []:
                    r.write(os.path.join(t, "changed2.txt"), "x\n")
        for (t_, c_) in desc.get("sigkill") or []:
            # this executable ends by a signal (no exit code)
            r.set_script(t_, c_, ["out " + b"about to die\n".hex(), "kill 9"])
        ctx = desc.get("context") or []
        if "prior-failed" in ctx:
            # only the first invocation of that executable (the one of the earlier run) fails
            r.set_script(ts[0]["path"], desc["commands"][0], ["err " + b"earlier failure\n".hex(), "exit 1"], nth=1)
        if "prior-failed" in ctx or "prior-ok" in ctx:
            r.mr("run", *desc["args"], env=r.trace_env())
        if "listener" in ctx:
            apply_context(s, r, sn, ["listener"])
        if "verbose" in ctx:
            r.global_flags = ["-vv"]
        before = r.mr("analyze", "--target-groups")
        bdoc = before.json()
        r.clear_traces()
        if desc["explicit"] is not None and not desc["deps"]:
            # "-t ... one at a time": every executable lingers a little so that overlap would be visible
            for (t, c), m in modes.items():
                if m == "x" and not desc.get("defs"):
                    r.set_script(t, c, ["sleep 30", "exit 0"])
        res = r.mr("run", *desc["args"], env=r.trace_env())
        doc = res.json()
        traces = r.traces()
        started = {}
        for rec in traces:
            t, c = r.target_pair(rec)
            started[(c, t)] = started.get((c, t), 0) + 1
            if (t, c) in ext and os.path.relpath(rec["argv"][0], r.dir) != "ext/%s/%s.sh" % (t, c):
                viol.append(("started-other-file", "%s:%s is defined as ext/%s/%s.sh but %s was started" % (c, t, t, c, os.path.relpath(rec["argv"][0], r.dir))))
        all_targets = sorted(tm)
        if desc["explicit"] is not None and not desc["deps"]:
            iv = sorted((rec["start"], rec.get("end", rec["start"]), r.target_pair(rec)) for rec in traces)
            for a, b in zip(iv, iv[1:]):
                if b[0] < a[1]:
                    viol.append(("explicit-targets-overlap", "with -t (no --deps) %s:%s was started while %s:%s was still running" % (b[2][1], b[2][0], a[2][1], a[2][0])))
                    break
        if desc["explicit"] is None:
            if bdoc is None:
                raise common.EngineError("analyze failed: %r" % before)
            selected = set(bdoc["targets"])
            exp_groups = [set(g) for g in bdoc["target_groups"]]
        elif not desc["deps"]:
            selected = set(desc["explicit"])
            exp_groups = None
        else:
            selected = sched.closure(tm, desc["explicit"])
            exp_groups = None
        if doc is None:
            viol.append(("no-result-document", "exit %s stderr %s" % (res.code, res.err[:300])))
        else:
            planned_l = [(c, t) for c in desc["commands"] for t in selected]   # a command may be planned more than once
            planned = set(planned_l)
            got = []
            for cr in doc["results"]:
                for grp in cr["target_groups"]:
                    for t in grp:
                        got.append((cr["command"], t))
            if sorted(got) != sorted(planned_l):
                extra = sorted(set(got) - planned)
                missing = sorted(x for x in planned if got.count(x) < planned_l.count(x))
                dup = sorted({x for x in got if got.count(x) > planned_l.count(x)})
                viol.append(("wrong-coverage", "result pairs != planned pairs: extra %s missing %s duplicated %s" % (extra, missing, dup)))
            if [cr["command"] for cr in doc["results"]] != desc["commands"]:
                viol.append(("wrong-commands", "result commands %s, expected %s" % ([cr["command"] for cr in doc["results"]], desc["commands"])))
            for cr in doc["results"]:
                groups = [set(g) for g in cr["target_groups"]]
                if desc["explicit"] is None:
                    if groups != exp_groups:
                        viol.append(("groups-differ-from-analyze", "run groups %s, analyze --target-groups %s" % (cr["target_groups"], bdoc["target_groups"])))
                elif not desc["deps"]:
                    if any(len(g) != 1 for g in groups):
                        viol.append(("explicit-targets-not-serial", "groups %s" % cr["target_groups"]))
                else:
                    idx = {t: i for i, g in enumerate(groups) for t in g}
                    for t in selected:
                        for u in sched.closure(tm, [t]):
                            if u != t and u in selected and t in idx and u in idx and not idx[u] < idx[t]:
                                viol.append(("deps-groups-not-a-layering", "%s depends on %s but groups are %s" % (t, u, cr["target_groups"])))
            if bool(doc.get("checkpointed")) != bool(desc["checkpoint"] and desc["explicit"] is None):
                viol.append(("checkpointed-flag-wrong", "checkpointed=%s" % doc.get("checkpointed")))
            # executable starts: at most once; exactly once iff defined+x and nothing earlier failed; never if absent
            failed_before = False
            for cr in doc["results"]:
                for grp in cr["target_groups"]:
                    # serial semantics inside a group are not fixed by the statement: use statuses
                    for t, v in grp.items():
                        k = started.get((cr["command"], t), 0)
                        m = modes.get((t, cr["command"]))
                        mult = desc["commands"].count(cr["command"])
                        if k > mult:
                            viol.append(("started-twice", "%s:%s started %d times (planned %d times)" % (cr["command"], t, k, mult)))
                        is_x = bool(m) and m.startswith("x")
                        if not is_x and k > 0:
                            viol.append(("started-undefined", "%s:%s is %s but a process was started" % (cr["command"], t, m)))
                        if is_x and not failed_before and v["status"] != "skipped" and k != mult and not (mult > 1 and doc.get("failed")):
                            viol.append(("not-started", "%s:%s defined and nothing failed earlier, started %d times (status %s)" % (cr["command"], t, k, v["status"])))
                    if any(v["status"] in ("error", "not_executable") for v in grp.values()):
                        failed_before = True
            for pr, k in started.items():
                if pr not in planned:
                    viol.append(("started-unplanned", "%s:%s started but not part of the selection" % pr))
        nontrivial = 1 if (selected and len(selected) < len(all_targets)) or desc["deps"] else 0
        return {"evaluations": 1, "nontrivial": nontrivial,
                "violations": [{"sig": sig, "detail": d, "rank": len(desc["args"]), "case": {"c05": desc}} for sig, d in viol],
                "doc": sched.canon_doc(doc),
                "sample": {"shape": desc["shape"], "args": desc["args"], "selected": sorted(selected)}}
    finally:
        s.cleanup()


# ------------------------------------------------------------------------------------------ workers

def apply_context(s, r, sn, ctx):
    """Things that exist around the explored run without being part of it: the records of an earlier
    run of the same arguments in the same repository (one that failed at the first target's first
    command, or one that succeeded), and/or a `log tail` listener attached for every execution."""
    if "foreign" in ctx:
        # everything from here on is invoked as `-f <abs config>` from an unrelated directory
        r.foreign_cwd()
    if "verbose" in ctx:
        # every invocation from here on also prints its own diagnostics (-vv)
        r.global_flags = ["-vv"]
    if "prior-failed" in ctx:
        r.set_script(sn.targets[0]["path"], sn.commands[0], ["err " + b"earlier failure\n".hex(), "exit 1"])
        pr = r.mr("run", *sn.args, env=r.trace_env())
        if pr.json() is None:
            raise common.EngineError("context: the earlier run printed no document: exit %s %s" % (pr.code, pr.err[:200]))
    if "prior-ok" in ctx:
        pr = r.mr("run", *sn.args, env=r.trace_env())
        if pr.json() is None:
            raise common.EngineError("context: the earlier run printed no document: exit %s %s" % (pr.code, pr.err[:200]))
    if "listener" in ctx:
        import subprocess
        argv_, cwd_ = r.cmdline("log", "tail", "--stdout", "--stderr")
        lis = subprocess.Popen(argv_, cwd=cwd_, env=s.env(),
                               stdout=subprocess.DEVNULL, stderr=subprocess.DEVNULL, start_new_session=True)
        s.popens.append(lis)
        t_end = time.time() + 10
        while not sc.port_listening(r.log_port):
            if lis.poll() is not None or time.time() > t_end:
                raise common.EngineError("context: log tail did not start")
            time.sleep(0.02)


def sched_task(kind, desc, opts):
    sn = sched.Scenario.from_desc(desc) if kind == "c04" else c06_build(desc)
    if kind == "c04":
        sn.sequences = opts.get("sequences")
    s = sc.Scratch(kind)
    try:
        r = sched.build_repo(s, sn)
        groups, res = sched.expected_groups(r, sn)
        if groups is None:
            raise common.EngineError("no expected groups for %s: %r" % (sn.name, res))
        mon = c04_monitor(sn) if kind == "c04" else c06_monitor(sn)
        if opts.get("context"):
            sn.context = opts["context"]
        if sn.context:
            apply_context(s, r, sn, sn.context)
        st = explore_bounded(s, r, sn, groups, mon, opts.get("max_dev", 99))
        return {"evaluations": st["executions"], "nontrivial": 1 if st["executions"] > 1 or sn.faults else 0,
                "states": len(st["states"]), "transitions": st["transitions"], "docs": list(st["docs"])[:50],
                "stalls": st["stalls"], "violations": st["violations"], "diverged": st["diverged"],
                "sample": {"scenario": sn.name, "executions": st["executions"], "groups": groups}}
    finally:
        s.cleanup()


def explore_bounded(s, r, sn, groups, mon, max_dev):
    """sched.explore with a bound on the number of non-default choices per schedule."""
    stats = {"executions": 0, "transitions": 0, "states": set(), "violations": [], "docs": set(), "stalls": 0, "diverged": []}
    stack = [[]]
    first = True
    while stack:
        prefix = stack.pop()
        if stats["executions"] > 5000:
            stats["diverged"].append("%s: execution cap hit" % sn.name)
            break
        ex = sched.run_once(s, r, sn, groups, prefix)
        stats["executions"] += 1
        stats["transitions"] += len(ex.decisions)
        stats["stalls"] += ex.stalls
        released = []
        for enabled, choice in ex.decisions:
            stats["states"].add((tuple(sorted(map(tuple, released))), tuple(map(tuple, enabled))))
            released.append(enabled[choice])
        stats["states"].add((tuple(sorted(map(tuple, released))), ("end", ex.code)))
        stats["docs"].add(sched.canon_doc(ex.doc))
        if ex.diverged:
            stats["diverged"].append("%s: %s" % (sn.name, ex.diverged))
        if first:
            first = False
            ex2 = sched.run_once(s, r, sn, groups, [(e, c) for e, c in ex.decisions])
            if sched.canon_doc(ex2.doc) != sched.canon_doc(ex.doc) or ex2.code != ex.code or ex2.order() != ex.order():
                a = json.loads(sched.canon_doc(ex.doc)) or {}
                b = json.loads(sched.canon_doc(ex2.doc)) or {}
                stats["diverged"].append("replay of the first schedule diverged (%s): codes %s/%s orders %s/%s results %s vs %s" % (
                    sn.name, ex.code, ex2.code, ex.order(), ex2.order(), json.dumps(a.get("results"))[:400], json.dumps(b.get("results"))[:400]))
                for sig, detail in mon(ex2):
                    stats["violations"].append({"sig": sig, "detail": detail, "rank": len(ex2.decisions) + 10 * len(sn.targets),
                                                "case": {"scenario": sn.describe(), "schedule": [[e, c] for e, c in ex2.decisions]}})
        for sig, detail in mon(ex):
            stats["violations"].append({"sig": sig, "detail": detail, "rank": len(ex.decisions) + 10 * len(sn.targets),
                                        "case": {"scenario": sn.describe(), "schedule": [[e, c] for e, c in ex.decisions]}})
        devs = sum(1 for _, c in prefix if c != 0)
        if devs >= max_dev:
            continue
        for i in range(len(ex.decisions) - 1, len(prefix) - 1, -1):
            enabled, choice = ex.decisions[i]
            if len(enabled) > sn.max_group_perm:
                continue
            for alt in range(len(enabled) - 1, choice, -1):
                stack.append([(e, c) for e, c in ex.decisions[:i]] + [(enabled, alt)])
    return stats


def _worker(task):
    kind, desc, opts = task
    try:
        if kind in ("c04", "c06"):
            return sched_task(kind, desc, opts)
        if kind == "c16":
            return c16_task(desc)
        if kind == "c05":
            return c05_task(desc)
        if kind == "c06b":
            return c06b_task(desc)
        if kind == "c06c":
            return c06c_task(desc)
        if kind == "c06d":
            return c06d_task(desc)
        if kind == "c06e":
            return c06e_task(desc)
        if kind == "c06f":
            return c06f_task(desc)
        if kind == "c06g":
            return c06g_task(desc)
        if kind == "c04long":
            return c04_long_task(desc)
        if kind == "c06h":
            return c06h_task(desc)
        if kind == "c06i":
            return c06i_task(desc)
    except common.EngineError as e:
        return {"engine_error": "%s: %s" % (kind, e)}
    except Exception:
        return {"engine_error": "%s: %s" % (kind, traceback.format_exc()[-1500:])}


def run_tasks(tasks, workers=None):
    return common.pmap(_worker, tasks, workers)


RULES = {
    "C04": "(plus one executable of a two-target, two-command plan that keeps running for 31 s - thorough also 65 s and 125 s - while its dependants wait) (thorough adds every labelled DAG on 2-4 nodes, single command, every release order) scenarios: 12 dependency shapes x selection modes (all targets / changed subset after a checkpoint / -t with --deps) x command lists (build; build test; sequence(build,test) then lint); every child blocks until released; stateless DFS over every release order (single-command scenarios: all orders; multi-command: all schedules with <= max_dev non-default choices) plus the eager deviation for every single child; monitor: at each arrival every dependency in the run and every executable of every earlier command has exited; evaluations = executions (complete runs); non-trivial = scenarios with more than one schedule",
    "C16": "(plus groups whose members all resolve the command to one shared executable, through definitions or a shared commands.path) (plus group sizes 2..13 with a `log tail` listener attached, three filter variants) (plus chains of wide groups, e.g. 30/30/10 and 40/40 under 1-2 commands, so that many tasks precede the group under test) group sizes x position of the group in the plan (only, first, middle, last) x 1-2 commands; no member is released before every member of the group has arrived (each member waits for all the others to start); oracle: every member arrives, then the run exits 0 with all success entries; non-trivial = scenarios where the full group rendezvoused for every command",
    "C06": "part B (internal orderings): plans with a group of n in {1,2,3} (thorough 4) followed by a dependent target, all commands succeed, points group.pre_shutdown:<i> and compressor.gone:<x> active; the free run, every single constraint `compressor.gone:x before group.pre_shutdown:i` per group and pairs of constraints (hit b is held until hit a was seen); oracle exit 0, failed=false, all success, stored logs complete; plus the compressor-delay scenarios of C08 (guarded point compressor.loop: free / held until the group is joined / until the first shutdown request / one request behind) x no failure and each member failing last, judged for failed flag, exit status, statuses and skipping of the dependent group; plus runs without any failure in which one member leaves a helper process behind that holds its output streams open (0.6 - 2.5 s) while a sibling is still running; plus an earlier command taking away / granting the execute bit of a later target's command file during the run; plus command files of every permission mode 0000-0777 (quick: 48 of them), started exactly when they carry an execute bit; plus runs confined to one, two and three CPUs (nothing failing / one target exiting 7); plus a failing member at several positions of groups of 130 / 257 (thorough 513) targets; plus -t app --deps with and without -a values, with and without --fail-on-undefined, where none / each one of the three targets of the chain does not define the command. part A: plans = dependency shapes with two commands; fault assignments: every single fault (exit codes, death by signal, missing x bit, undefined with/without --fail-on-undefined) at every (command,target) position, pairs of faults within a command, and no fault; every exit code 1..255 at one position of the fork shape (default schedule); a subset again with an earlier failed / successful run's records on disk and with a listener attached; for each every release order of the groups (<=3 members); oracle: failed flag, exit status, skipped/not-started later groups and commands, status truthfulness; evaluations = executions",
    "C05": "(plus variants in which some targets define the command through commands.definitions with explicit paths and the declaration order is reversed) dependency shapes x command-definition patterns x command lists x selection modes (no targets without checkpoint; checkpoint + every changed subset; -t S; -t S --deps; the -t forms also with a checkpoint present) in trace mode; oracle: result document pairs == commands x selected targets exactly once, groups equal analyze --target-groups taken immediately before (or singletons / a valid layering of the closure), executable starts at most once, exactly once iff defined and nothing failed earlier, never when undefined; evaluations = runs",
}


def run(prop, tier):
    t0 = time.time()
    gen = {"C04": c04_scenarios, "C16": c16_scenarios, "C06": c06_scenarios, "C05": c05_scenarios}[prop]
    tasks = gen(tier)
    if prop == "C06":
        part = os.environ.get("VERIF_C06_PART", "AB")
        import p_c08
        tasks = (c06b_scenarios(tier) if "B" in part else []) + (tasks if "A" in part else []) + \
            ([("c06c", d, {}) for d in p_c08.order_scenarios(tier)] if "B" in part else []) + \
            ([("c06d", {"n": n_, "linger_ms": lm, "sibling_ms": sm}, {}) for n_ in (2, 3) for (lm, sm) in ((1500, 700), (600, 1200), (2500, 300))] if "B" in part else []) + \
            ([("c06e", {"direction": d_}, {}) for d_ in ("revoke", "grant")] if "B" in part else []) + \
            ([("c06f", {"modes": ms}, {}) for ms in c06f_modes(tier)] if "B" in part else []) + \
            ([("c06h", {"n": n_, "fail": k_}, {}) for (n_, k_) in ([(130, 0), (130, 129), (257, 5), (257, 200)] if tier == "quick" else [(130, 0), (130, 64), (130, 129), (257, 5), (257, 128), (257, 256), (513, 1), (513, 300)])] if "B" in part else []) + \
            ([("c06i", {"cpus": n_, "fail": f_}, {}) for n_ in (1, 2, 3) for f_ in (False, True)] if "B" in part else []) + \
            ([("c06g", {"undef": u_, "flag": f_, "args": a_}, {}) for u_ in (None, "base", "lib", "app") for f_ in (False, True) for a_ in (False, True)] if "B" in part else [])
    if prop == "C05":
        # every permission mode that carries an execute bit (owner, group or other alone included): the
        # selected target's command is started, once (the family of C06 part f, without the failing modes)
        tasks = tasks + [("c06f", {"modes": ms}, {}) for ms in c06f_modes(tier) if all(m & 0o111 for m in ms)]
    if prop == "C04":
        # first in the list: it takes half a minute of waiting, the pool works on the others meanwhile
        tasks = [("c04long", {"hold_s": h_, "slow": s_}, {}) for (h_, s_) in ([(31, 0)] if tier == "quick" else [(31, 0), (31, 1), (65, 0), (125, 2)])] + tasks
    results = run_tasks(tasks)
    errs = [r["engine_error"] for r in results if r and "engine_error" in r]
    results = [r for r in results if r and "engine_error" not in r]
    if errs and not any(r["violations"] for r in results):
        raise common.EngineError("; ".join(errs[:3]))
    # (a scenario whose preparation failed says nothing; a violation observed in another scenario stands)
    agg = {"evaluations": 0, "distinct_nontrivial": 0, "states": 0, "transitions": 0, "violations": [], "samples": [],
           "rule": RULES[prop], "exhaustive": True, "scenarios": len(tasks), "stalls": 0}
    docs = set()
    for r in results:
        agg["evaluations"] += r["evaluations"]
        agg["distinct_nontrivial"] += r["nontrivial"]
        agg["states"] += r.get("states", 1)
        agg["transitions"] += r.get("transitions", 1)
        agg["stalls"] += r.get("stalls", 0)
        agg["blocked_by_run_failure"] = agg.get("blocked_by_run_failure", 0) + r.get("blocked", 0)
        agg["unrealised_constraints"] = agg.get("unrealised_constraints", 0) + r.get("unrealised", 0)
        agg["violations"].extend(r["violations"])
        for d in r.get("docs", []) or ([r["doc"]] if "doc" in r else []):
            docs.add(d)
        if len(agg["samples"]) < 5 and r.get("sample"):
            agg["samples"].append(r["sample"])
    agg["distinct_result_documents"] = len(docs)
    agg["scenarios_not_prepared"] = len(errs)
    agg["traces_validated_against_impl"] = agg["evaluations"]
    agg["bounds"] = {"tier": tier}
    if prop == "C05":
        # part B: in every repository state of the history BFS, run agrees with analyze
        import p_repo
        b = p_repo.bfs("C05", tier, 2 if tier == "quick" else 3, wall_cap=None if tier == "quick" else 900)
        agg["repo_states"] = b["states"]
        agg["repo_transitions"] = b["transitions"]
        agg["states"] = agg.get("states", 0) + b["states"]
        agg["transitions"] = agg.get("transitions", 0) + b["transitions"]
        agg["evaluations"] += b["evaluations"]
        agg["traces_validated_against_impl"] += b["traces_validated_against_impl"]
        agg["distinct_nontrivial"] += b["distinct_nontrivial"]
        agg["violations"].extend(b["violations"])
        agg["rule"] += "; part B: explicit-state BFS over repository histories (depth %d, %d states): in every state `analyze --target-groups` then `run -c build` with traced children must agree on groups and started targets" % (b["depth_completed"], b["states"])
    diverged = [d for r in results for d in r.get("diverged", [])]
    agg["divergent_executions"] = len(diverged)
    if diverged and not agg["violations"]:
        raise common.EngineError("exploration was not deterministic and no violation was observed: " + "; ".join(diverged[:3]))
    by = {}
    for v in agg["violations"]:
        by[v["sig"]] = by.get(v["sig"], 0) + 1
    agg["by_sig"] = by
    agg["violation_count"] = len(agg["violations"])
    agg["violations"] = sorted(agg["violations"], key=lambda v: v["rank"])[:200]
    assume = ["children block in vhelper until released; the driver's expectation of who arrives is used for pacing only (a stall degrades coverage, never the verdict)",
              "tokio worker interleavings inside run between releases are free-running"]
    return agg, assume


def replay(prop, path):
    body = json.load(open(path))
    case = body["case"]
    if "ops" in case:
        import p_repo
        return p_repo.replay(prop, path)
    if "c16" in case:
        r = c16_task(case["c16"])
    elif "c06b" in case:
        r = c06b_task(case["c06b"])
    elif "c06c" in case:
        r = c06c_task(case["c06c"])
    elif "c06d" in case:
        r = c06d_task(case["c06d"])
    elif "c06e" in case:
        r = c06e_task(case["c06e"])
    elif "c06f" in case:
        r = c06f_task(case["c06f"])
    elif "c06g" in case:
        r = c06g_task(case["c06g"])
    elif "c04long" in case:
        r = c04_long_task(case["c04long"])
    elif "c06h" in case:
        r = c06h_task(case["c06h"])
    elif "c06i" in case:
        r = c06i_task(case["c06i"])
    elif "c05" in case:
        r = c05_task(case["c05"])
    else:
        sn = sched.Scenario.from_desc(case["scenario"])
        kind = "c06" if prop == "C06" else "c04"
        s = sc.Scratch("replay")
        try:
            rr = sched.build_repo(s, sn)
            groups, _ = sched.expected_groups(rr, sn)
            mon = c04_monitor(sn) if kind == "c04" else c06_monitor(sn)
            prefix = [(e, c) for e, c in case["schedule"]]
            if sn.context:
                apply_context(s, rr, sn, sn.context)
            ex1 = sched.run_once(s, rr, sn, groups, prefix)
            ex2 = sched.run_once(s, rr, sn, groups, prefix)
            v1, v2 = mon(ex1), mon(ex2)
            if sorted(v1) != sorted(v2):
                print("ENGINE: two replays of the same schedule disagree: %s vs %s" % (v1, v2))
                return 2
            r = {"violations": [{"sig": a, "detail": b} for a, b in v1]}
        finally:
            s.cleanup()
    if r["violations"]:
        for v in r["violations"]:
            print("REPLAY property=%s still violates: [%s] %s" % (prop, v["sig"], v["detail"][:300]))
        print("VIOLATION property=%s replay=%s" % (prop, path))
        return 1
    print("REPLAY property=%s: case passes on the current tree" % prop)
    return 0
