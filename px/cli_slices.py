"""End-to-end conformance slices: the same kinds of cases the in-process explorers (vx) sweep, pushed
through the real CLI and judged by an independent (Python) copy of the reference oracles. They bind
the cfg-guarded wrappers to the code paths a user actually reaches."""
import itertools
import json
import os
import re
import traceback

import common
import scratch as sc


def inside(x, p):
    return x == p or x.startswith(p + "/")


def dep(tm, t, u):
    if t == u:
        return False
    return inside(t, u) or any(inside(s, u) for s in tm[t].get("uses", []) or [])


def has_cycle(tm, nodes=None):
    rem = set(nodes if nodes is not None else tm)
    while True:
        strip = [n for n in rem if not any(dep(tm, n, m) for m in rem)]
        if not strip:
            return bool(rem)
        rem -= set(strip)


def closure(tm, roots):
    seen, st = set(), list(roots)
    while st:
        n = st.pop()
        if n in seen:
            continue
        seen.add(n)
        st.extend(u for u in tm if dep(tm, n, u))
    return seen


def layering_defect(tm, want, groups):
    idx = {}
    for gi, g in enumerate(groups):
        for t in g:
            if t in idx:
                return "%s appears twice" % t
            idx[t] = gi
    if set(idx) != set(want):
        return "groups contain %s, requested %s" % (sorted(idx), sorted(want))
    for t in want:
        for u in closure(tm, [t]):   # transitive: also through targets that are not part of the groups
            if u != t and u in want and not idx[u] < idx[t]:
                return "%s depends on %s but group %d !< %d" % (t, u, idx[u], idx[t])
    return None


FLAT = ["t1", "t10", "T1"]   # a prefix sibling and a name that differs from another one by letter case only


def digraphs(n):
    pairs = [(i, j) for i in range(n) for j in range(n) if i != j]
    for bits in range(1 << len(pairs)):
        yield [pairs[k] for k in range(len(pairs)) if bits >> k & 1]


def flat_targets(n, edges, files=False):
    ts = [{"path": FLAT[i]} for i in range(n)]
    for i, j in edges:
        ts[i].setdefault("uses", []).append(FLAT[j] + ("/f.txt" if files else ""))
    return ts


# ------------------------------------------------------------------------------------------ C10

def c10_task(ts):
    od = None
    if isinstance(ts, dict):
        ts, od = ts["targets"], ts.get("out_dir")
    s = sc.Scratch("c10cli")
    try:
        r = sc.Repo(s, "r", ts, init_git=False, ports=False, cfg_extra={"out_dir": od} if od else None)
        tm = {t["path"]: t for t in ts}
        dot = os.path.join(s.dir, "g.dot")
        with open(dot, "w") as f:   # a longer file from an earlier rendering is already there
            f.write("digraph OLD {\n" + "9 [label=\"stale\"];\n" + "9 -> 9;\n" * 200 + "}\n")
        res = r.mr("target", "render", "-f", dot)
        if res.code != 0:
            if has_cycle(tm):
                return []
            return [("render-failed", "target render failed on an acyclic configuration: %s" % res.err[:200])]
        text = open(dot).read()
        nodes = dict((int(a), b) for a, b in re.findall(r'^(\d+) \[label="(.*)"\];$', text, re.M))
        edges = set((nodes.get(int(a), "<node %s>" % a), nodes.get(int(b), "<node %s>" % b)) for a, b in re.findall(r"^(\d+) -> (\d+);$", text, re.M))
        edge_lines = re.findall(r"^(\d+) -> (\d+);$", text, re.M)
        v = []
        if sorted(nodes.values()) != sorted(tm):
            v.append(("render-nodes-wrong", "nodes %s, targets %s" % (sorted(nodes.values()), sorted(tm))))
        want = set((t, u) for t in tm for u in tm if dep(tm, t, u))
        if edges != want or len(edge_lines) != len(want):
            v.append(("render-edges-wrong", "edges %s (lines %d), expected %s" % (sorted(edges), len(edge_lines), sorted(want))))
        other = [l for l in text.splitlines() if l and not re.match(r'^(\d+ \[label=".*"\];|\d+ -> \d+;|digraph DAG \{|// .*|node \[.*\];|edge \[.*\];|\})$', l)]
        if other:
            v.append(("render-extra-lines", "unexpected lines %s" % other[:3]))
        return v
    finally:
        s.cleanup()


def c10_symlink_task(_):
    """The relation is a matter of the declared path strings, whatever is on disk: a `uses` entry that
    passes through a symbolic link into another target's directory, and a target declared through a
    symbolic link, are related to what their *text* says."""
    ts = [{"path": "app", "uses": ["vendor/core/api.txt"]}, {"path": "libs/core"}, {"path": "pkg/ui"},
          {"path": "web", "uses": ["pkg/ui/index.txt"]}, {"path": "tools", "uses": ["./libs/../tools/x"]}]
    tm = {t["path"]: t for t in ts}
    s = sc.Scratch("c10sym")
    try:
        os.makedirs(os.path.join(s.dir, "r"))
        base = os.path.join(s.dir, "r")
        for d_ in ("app", "libs/core", "packages/ui", "web", "tools", "vendor"):
            os.makedirs(os.path.join(base, d_))
            with open(os.path.join(base, d_, "f.txt"), "w") as f:
                f.write("x\n")
        for f_ in ("libs/core/api.txt", "packages/ui/index.txt"):
            with open(os.path.join(base, f_), "w") as f:
                f.write("x\n")
        os.symlink("../libs/core", os.path.join(base, "vendor/core"))
        os.symlink("packages", os.path.join(base, "pkg"))
        with open(os.path.join(base, "Monorail.json"), "w") as f:
            json.dump({"targets": ts}, f)
        dot = os.path.join(s.dir, "g.dot")
        import subprocess
        res = subprocess.run([common.MONORAIL, "target", "render", "-f", dot], cwd=base, env=s.env(), capture_output=True)
        if res.returncode != 0:
            return [("render-failed", "target render failed with symbolic links in the tree: %s" % res.stderr[:200])]
        text = open(dot).read()
        nodes = dict((int(a), b) for a, b in re.findall(r'^(\d+) \[label="(.*)"\];$', text, re.M))
        edges = sorted((nodes.get(int(a), "?"), nodes.get(int(b), "?")) for a, b in re.findall(r"^(\d+) -> (\d+);$", text, re.M))
        want = sorted((t, u) for t in tm for u in tm if dep(tm, t, u))
        v = []
        if sorted(nodes.values()) != sorted(tm):
            v.append(("render-nodes-wrong", "nodes %s, targets %s" % (sorted(nodes.values()), sorted(tm))))
        if edges != want:
            v.append(("render-edges-wrong", "with symbolic links on disk (vendor/core -> ../libs/core, pkg -> packages): edges %s, the declared paths give %s" % (edges, want)))
        return v
    finally:
        s.cleanup()


def c10_cases(tier):
    dirs = ["a", "ab", "a/c", "a/cd", "a/c/e", "b"]
    entries = dirs + ["lib", "a/f", "a/c/f", "b/f", "li", "x.txt", "a/", "a/c/", "b/"]   # (with a trailing separator: still that directory)
    out = []
    for k in (1, 2, 3):
        for tset in itertools.combinations(dirs, k):
            out.append([{"path": p} for p in tset])
            for ti in range(k):
                for e in entries:
                    ts = [{"path": p} for p in tset]
                    ts[ti]["uses"] = [e]
                    out.append(ts)
    limit = 300 if tier == "quick" else len(out)
    step = max(1, len(out) // limit)
    out = out[::step][:limit] if tier == "quick" else out
    # `ignores` are about change detection only: an entry one target uses and its owner (or the user
    # itself, or a bystander) ignores - the entry itself or the directory above it - is still a dependency
    ign = []
    for k in (2, 3):
        for tset in itertools.combinations(dirs, k):
            for ti in range(k):
                for e in entries:
                    if not any(inside(e, p) for i, p in enumerate(tset) if i != ti):
                        continue
                    for ui in range(k):
                        for g in {e, os.path.dirname(e) or e}:
                            ts = [{"path": p} for p in tset]
                            ts[ti]["uses"] = [e]
                            ts[ui]["ignores"] = [g]
                            ign.append(ts)
    out += ign[:: (7 if tier == "quick" else 1)]
    # the output directory's name is a string prefix of a target others use, without containing it
    out.append({"targets": [{"path": "ab"}, {"path": "b", "uses": ["ab"]}], "out_dir": "a"})
    out.append({"targets": [{"path": "a/cd"}, {"path": "b", "uses": ["a/cd/x"]}, {"path": "a"}], "out_dir": "a/c"})
    out.append({"targets": [{"path": "monorail-outline"}, {"path": "b", "uses": ["monorail-outline/api"]}], "out_dir": None})
    out.append({"targets": [{"path": "build-tools"}, {"path": "app", "uses": ["build-tools"]}, {"path": "build-tools/gen"}], "out_dir": "build"})
    # directories a target names for its commands or argmaps are not `uses` entries: no edge, wherever they point
    out.append([{"path": "tools"}, {"path": "app", "commands": {"path": "tools/scripts"}}])
    out.append([{"path": "tools"}, {"path": "app", "argmaps": {"path": "tools/args"}}, {"path": "lib", "uses": ["app"]}])
    out.append([{"path": "tools"}, {"path": "app", "commands": {"path": "tools", "definitions": {"build": {"path": "tools/build-app.sh"}}}}])
    # names whose rendering as a label is easy to get wrong: precomposed and decomposed accents, a
    # zero-width joiner, CJK, a quote-free name with a backslash-like look, siblings around '/'
    odd = ["caf\u00e9", "cafe\u0301", "z\u200dw", "\u65e5\u672c", "a-b", "a.c", "caf\u00e9/sub"]
    for k in (1, 2, 3):
        for tset in itertools.combinations(odd, k):
            ts = [{"path": p} for p in tset]
            out.append(ts)
            if k >= 2:
                ts2 = [{"path": p} for p in tset]
                ts2[0]["uses"] = [tset[1]]
                out.append(ts2)
    return out


# ------------------------------------------------------------------------------------------ C03 / C09

def graph_task(args):
    prop, n, edges, files = args[:4]
    ign = args[4] if len(args) > 4 else None
    tier_all = os.environ.get("VERIF_TIER_THOROUGH") == "1"
    ts = flat_targets(n, edges, files)
    # `ignores` play no part in the dependency relation: a target that ignores the very path it uses
    # (it wants the ordering, not the rebuilds), or whose owner ignores the path others use
    if ign == "self":
        for t_ in ts:
            if t_.get("uses"):
                t_["ignores"] = list(t_["uses"])
    od = None
    if ign == "outdir":
        od = "t"   # an output directory whose name is a string prefix of every target (t1, t10) without containing any
    elif ign == "owner":
        for t_ in ts:
            mine = sorted({u for o in ts for u in (o.get("uses") or []) if o is not t_ and inside(u, t_["path"])})
            if mine:
                t_["ignores"] = mine
    tm = {t["path"]: t for t in ts}
    cyc = has_cycle(tm)
    if (prop == "C03") == cyc:
        return {"judged": 0, "v": []}
    s = sc.Scratch("gcli")
    try:
        cfgx = {"sequences": {"noop": [], "ci": ["build"]}}
        if od:
            cfgx["out_dir"] = od
        r = sc.Repo(s, "r", ts, commands={t["path"]: {"build": "x"} for t in ts}, init_git=False, cfg_extra=cfgx)
        v = []
        judged = 0
        calls = [("target show -g", ["target", "show", "-g"], lambda d: d.get("target_groups"), set(tm)),
                 ("analyze --target-groups", ["analyze", "--target-groups"], lambda d: d.get("target_groups"), set(tm))]
        for name, argv, getg, want in calls:
            res = r.mr(*argv)
            judged += 1
            if cyc:
                e = res.err_json() or {}
                if res.code == 0 or e.get("type") != "graph":
                    v.append(("cycle-accepted-by-cli", "%s on a cyclic configuration: exit %s, stderr %s, stdout %s" % (name, res.code, res.err[:150], res.out[:150])))
            else:
                d = res.json()
                if res.code != 0 or d is None:
                    v.append(("acyclic-rejected-by-cli", "%s: exit %s %s" % (name, res.code, res.err[:200])))
                else:
                    bad = layering_defect(tm, want, getg(d) or [])
                    if bad:
                        v.append(("bad-layering-cli", "%s: %s (groups %s)" % (name, bad, getg(d))))
        # run: all targets, and -t X --deps for every X
        runs = [("run -c build", ["run", "-c", "build"], set(tm)), ("run -s ci", ["run", "-s", "ci"], set(tm))]
        if cyc:
            # a sequence without commands: there is nothing to execute, the configuration is cyclic all the same
            runs.append(("run -s noop", ["run", "-s", "noop"], set(tm)))
            runs.append(("run -s noop -t %s --deps" % sorted(tm)[0], ["run", "-s", "noop", "-t", sorted(tm)[0], "--deps"], closure(tm, [sorted(tm)[0]])))
        for x in tm:
            runs.append(("run -c build -t %s --deps" % x, ["run", "-c", "build", "-t", x, "--deps"], closure(tm, [x])))
            # the same selection with a runtime argument for the named target (-a needs one command, one target)
            if x == sorted(tm)[0] or tier_all:
                runs.append(("run -c build -t %s --deps -a v" % x, ["run", "-c", "build", "-t", x, "--deps", "-a", "v"], closure(tm, [x])))
        for name, argv, want in runs:
            reach_cyc = has_cycle(tm, want)
            if cyc and not reach_cyc:
                continue  # cycle not reachable from the roots: not judged
            r.clear_traces()
            res = r.mr(*argv, env=r.trace_env())
            judged += 1
            started = r.traces()
            if reach_cyc:
                e = res.err_json() or {}
                if res.code == 0 or e.get("type") != "graph":
                    v.append(("cycle-accepted-by-run", "%s: exit %s, stderr %s" % (name, res.code, res.err[:150])))
                if started:
                    v.append(("executed-despite-cycle", "%s started %d executables" % (name, len(started))))
            else:
                d = res.json()
                if res.code != 0 or d is None:
                    v.append(("acyclic-rejected-by-run", "%s: exit %s %s" % (name, res.code, res.err[:200])))
                else:
                    groups = [list(g) for g in d["results"][0]["target_groups"]]
                    bad = layering_defect(tm, want, groups)
                    if bad:
                        v.append(("bad-layering-run", "%s: %s (groups %s)" % (name, bad, groups)))
        if not cyc:
            # a command that a whole layer of the plan does not define (only some targets deploy, only
            # some have tests): the groups `run` reports are still a layering of all requested targets
            lay = (r.mr("analyze", "--target-groups").json() or {}).get("target_groups") or []
            for li, layer in enumerate(lay if len(lay) > 1 else []):
                for t in tm:
                    f = r.path(os.path.join(t, "monorail/cmd/dep.sh"))
                    if os.path.lexists(f):
                        os.unlink(f)
                    if t not in layer:
                        r.command_file(t, "dep", "x")
                for argv, idxs in ((["run", "-c", "dep"], [0]), (["run", "-c", "build", "dep", "build"], [0, 1, 2])):
                    res = r.mr(*argv, env=r.trace_env())
                    judged += 1
                    d = res.json()
                    if res.code != 0 or d is None or len(d.get("results") or []) != len(idxs):
                        v.append(("acyclic-rejected-by-run", "%s with no target of layer %d defining `dep`: exit %s %s" % (" ".join(argv), li, res.code, res.err[:200])))
                        continue
                    for i in idxs:
                        groups = [list(g) for g in d["results"][i]["target_groups"]]
                        bad = layering_defect(tm, set(tm), groups)
                        if bad:
                            v.append(("bad-layering-run", "%s with no target of layer %d (%s) defining `dep`: command #%d: %s (groups %s)" % (" ".join(argv), li, sorted(layer), i, bad, groups)))
        if not cyc and len(tm) > 1:
            # an earlier command fails: the later command is skipped as a whole, and the groups reported for it
            # (and for the failing command itself) are still a layering of all requested targets
            lay = (r.mr("analyze", "--target-groups").json() or {}).get("target_groups") or []
            for t in tm:
                r.command_file(t, "prep", "x")
            victim = sorted(lay[0])[0] if lay else sorted(tm)[0]
            r.set_script(victim, "prep", ["err " + b"prep fails\n".hex(), "exit 1"])
            res = r.mr("run", "-c", "prep", "build", env=r.trace_env())
            judged += 1
            d = res.json()
            if d is None or len(d.get("results") or []) != 2:
                v.append(("no-result-document", "run -c prep build with prep failing for %s: exit %s %s" % (victim, res.code, res.err[:200])))
            else:
                for i in (0, 1):
                    groups = [list(g) for g in d["results"][i]["target_groups"]]
                    bad = layering_defect(tm, set(tm), groups)
                    if bad:
                        v.append(("bad-layering-run", "run -c prep build with prep failing for %s: command #%d (%s): %s (groups %s)" % (victim, i, "skipped as a whole" if i else "the failing one", bad, groups)))
        return {"judged": judged, "v": [(sig, d, {"cli_graph": {"n": n, "edges": edges, "files": files, "ign": ign}}) for sig, d in v]}
    finally:
        s.cleanup()


def cyc_ckpt_task(args):
    """C09 with a repository history: the cyclic configuration (plus one unrelated target `x`) lives in a
    git repository; states = no checkpoint / checkpoint and nothing changed / a change only outside
    the cycle (committed, or untracked) / a change inside it. In every state the three grouping APIs
    reject with a graph error and `run` starts nothing."""
    n, edges = args[:2]
    nocmd = len(args) > 2 and args[2]
    ts = flat_targets(n, edges, False) + [{"path": "x"}]
    tm = {t["path"]: t for t in ts}
    s = sc.Scratch("gck")
    try:
        # nocmd: the targets of the cyclic part have no command directory at all (library / docs targets
        # that exist for change tracking only); only the unrelated target x can run anything
        r = sc.Repo(s, "r", ts, commands={t["path"]: {"build": "x"} for t in ts if not nocmd or t["path"] == "x"})
        v = []
        judged = 0
        member = ts[0]["path"]

        def probe(state):
            nonlocal judged
            for name, argv in (("run -c build", ["run", "-c", "build"]), ("analyze --target-groups", ["analyze", "--target-groups"]),
                               ("target show -g", ["target", "show", "-g"])):
                r.clear_traces()
                res = r.mr(*argv, env=r.trace_env())
                judged += 1
                e = res.err_json() or {}
                if res.code == 0 or e.get("type") != "graph":
                    v.append(("cycle-accepted-with-history", "[%s] %s: exit %s, stdout %s, stderr %s" % (state, name, res.code, res.out[-150:], res.err[:150])))
                started = r.traces()
                if started:
                    v.append(("executed-despite-cycle", "[%s] %s started %d executables" % (state, name, len(started))))
        probe("no checkpoint")
        up = r.mr("checkpoint", "update")
        if up.code != 0:
            return {"judged": judged, "v": [(sig, d, {"cli_cyc_ckpt": [n, edges, nocmd]}) for sig, d in v]}  # checkpointing a cyclic config is not C09's subject
        probe("checkpoint, nothing changed")
        r.write("x/new.txt", "untracked\n")
        probe("checkpoint, untracked change outside the cycle")
        r.commit("x")
        probe("checkpoint, committed change outside the cycle")
        r.mr("checkpoint", "update")
        r.write(member + "/edit.txt", "edit\n")
        r.commit("m")
        probe("checkpoint, committed change inside the cycle")
        return {"judged": judged, "v": [(sig, d, {"cli_cyc_ckpt": [n, edges, nocmd]}) for sig, d in v]}
    finally:
        s.cleanup()


def acyc_ckpt_task(args):
    """C03 with a repository history: an acyclic configuration in a git repository with a checkpoint;
    for every non-empty subset of targets touched since (optionally with the records of an earlier
    failed run on disk) `analyze --target-groups` and `run` must group exactly the targets they
    report as changed, every target after everything it depends on."""
    n, edges, prior = args
    ts = flat_targets(n, edges, False)
    tm = {t["path"]: t for t in ts}
    s = sc.Scratch("gak")
    try:
        r = sc.Repo(s, "r", ts, commands={t["path"]: {"build": "x"} for t in ts})
        v = []
        judged = 0
        if r.mr("checkpoint", "update").code != 0:
            raise common.EngineError("checkpoint update failed")
        if prior:
            r.set_script(ts[0]["path"], "build", ["exit 1"])
            r.mr("run", "-c", "build", "-t", ts[0]["path"], env=r.trace_env())
            r.set_script(ts[0]["path"], "build", ["exit 0"])
        names = [t["path"] for t in ts]
        for bits in range(1, 1 << n):
            touched = [names[i] for i in range(n) if bits >> i & 1]
            for t_ in names:
                p_ = r.path(t_ + "/touch.txt")
                if t_ in touched:
                    r.write(t_ + "/touch.txt", "x\n")
                elif os.path.exists(p_):
                    os.unlink(p_)
            res = r.mr("analyze", "--target-groups")
            d = res.json()
            judged += 1
            if res.code != 0 or d is None:
                v.append(("acyclic-rejected-by-cli", "analyze --target-groups with a checkpoint and %s touched: exit %s %s" % (touched, res.code, res.err[:200])))
                continue
            want = set(d.get("targets") or [])
            if not set(touched) <= want:
                v.append(("touched-target-not-reported", "touched %s, analyze reports %s" % (touched, sorted(want))))
            bad = layering_defect(tm, want, d.get("target_groups") or [])
            if bad:
                v.append(("bad-layering-cli", "checkpoint, %s touched: %s (groups %s)" % (touched, bad, d.get("target_groups"))))
            # (--deps without -t adds nothing: the requested targets are still the changed ones)
            for extra in ([], ["--deps"]):
                r.clear_traces()
                rr = r.mr("run", "-c", "build", *extra, env=r.trace_env())
                rd = rr.json()
                judged += 1
                if rr.code != 0 or rd is None:
                    v.append(("acyclic-rejected-by-run", "run %s with a checkpoint and %s touched: exit %s %s" % (" ".join(extra), touched, rr.code, rr.err[:200])))
                else:
                    groups = [list(g) for g in rd["results"][0]["target_groups"]]
                    bad = layering_defect(tm, want, groups)
                    if bad:
                        v.append(("bad-layering-run", "run -c build %s, checkpoint, %s touched: %s (groups %s)" % (" ".join(extra), touched, bad, groups)))
        return {"judged": judged, "v": [(sig, d, {"cli_acyc_ckpt": [n, edges, prior]}) for sig, d in v]}
    finally:
        s.cleanup()


def symlink_targets_task(order):
    """Acyclic configuration in which some target directories hold no regular file of their own: only
    symbolic links to files, or only a symbolic link to a directory that has files. Every grouping API
    still succeeds with a valid layering."""
    ts = [{"path": "lib"}, {"path": "cfg"}, {"path": "vendor"}, {"path": "app", "uses": ["lib", "cfg"]}, {"path": "web", "uses": ["app", "vendor"]}]
    if order == "reversed":
        ts = list(reversed(ts))
    tm = {t["path"]: t for t in ts}
    s = sc.Scratch("gsym")
    try:
        r = sc.Repo(s, "r", ts, commands={t["path"]: {"build": "x"} for t in ts if t["path"] not in ("cfg", "vendor")}, init_git=False)
        r.write("shared/settings.txt", "x\n")
        r.write("third_party/pkg/file.txt", "x\n")
        os.unlink(r.path("cfg/f.txt"))
        os.symlink("../shared/settings.txt", r.path("cfg/settings.txt"))
        os.unlink(r.path("vendor/f.txt"))
        os.symlink("../third_party/pkg", r.path("vendor/pkg"))
        v = []
        judged = 0
        for name, argv, getg in (("target show -g", ["target", "show", "-g"], lambda d: d.get("target_groups")),
                                 ("analyze --target-groups", ["analyze", "--target-groups"], lambda d: d.get("target_groups")),
                                 ("run -c build", ["run", "-c", "build"], lambda d: [list(g) for g in d["results"][0]["target_groups"]]),
                                 ("run -c build -t web --deps", ["run", "-c", "build", "-t", "web", "--deps"], lambda d: [list(g) for g in d["results"][0]["target_groups"]])):
            res = r.mr(*argv, env=r.trace_env())
            judged += 1
            d = res.json()
            if res.code != 0 or d is None:
                v.append(("acyclic-rejected-by-cli", "%s with target directories that hold only symbolic links: exit %s %s" % (name, res.code, res.err[:200])))
                continue
            bad = layering_defect(tm, set(tm), getg(d) or [])
            if bad:
                v.append(("bad-layering-cli", "%s: %s (groups %s)" % (name, bad, getg(d))))
        return {"judged": judged, "v": [(sig, d, {"cli_symlink_targets": order}) for sig, d in v]}
    finally:
        s.cleanup()


def acyc_ckpt_cases(tier):
    out = []
    for n in (2, 3):
        for edges in digraphs(n):
            ts = flat_targets(n, edges, False)
            if edges and not has_cycle({t["path"]: t for t in ts}):
                out.append((n, edges, False))
                if tier != "quick" or len(edges) == 2:
                    out.append((n, edges, True))
    return out


def big_cycle_task(n):
    """n flat targets t0000.. (n around the powers of two and batch sizes a parallel or chunked edge
    builder might use), one 2-cycle between the last two targets, command files only for those two."""
    ts = [{"path": "t%04d" % i} for i in range(n)]
    ts[n - 2]["uses"] = [ts[n - 1]["path"]]
    ts[n - 1]["uses"] = [ts[n - 2]["path"]]
    s = sc.Scratch("gbig")
    try:
        r = sc.Repo(s, "r", ts, commands={ts[n - 2]["path"]: {"build": "x"}, ts[n - 1]["path"]: {"build": "x"}}, init_git=False)
        v = []
        judged = 0
        for name, argv in (("analyze --target-groups", ["analyze", "--target-groups"]), ("target show -g", ["target", "show", "-g"]),
                           ("run -c build", ["run", "-c", "build"]), ("run -c build -t last --deps", ["run", "-c", "build", "-t", ts[n - 1]["path"], "--deps"])):
            r.clear_traces()
            res = r.mr(*argv, env=r.trace_env(), timeout=300)
            judged += 1
            e = res.err_json() or {}
            if res.code == 0 or e.get("type") != "graph":
                v.append(("cycle-accepted-by-cli", "%d targets, cycle between the last two: %s exit %s, stderr %s" % (n, name, res.code, res.err[:150])))
            if r.traces():
                v.append(("executed-despite-cycle", "%d targets: %s started %d executables" % (n, name, len(r.traces()))))
        return {"judged": judged, "v": [(sig, d, {"cli_big_cycle": n}) for sig, d in v]}
    finally:
        s.cleanup()


def cyc_ckpt_cases(tier):
    out = []
    for n in (2, 3):
        for edges in digraphs(n):
            ts = flat_targets(n, edges, False)
            if has_cycle({t["path"]: t for t in ts}):
                out.append((n, edges))
    out = out if tier != "quick" else out[::3]
    return out + [(n, e, True) for (n, e) in out[:: (2 if tier != "quick" else 4)]]


def graph_cases(prop, tier):
    out = []
    for n in (1, 2, 3):
        for edges in digraphs(n):
            out.append((prop, n, edges, False))
            if edges and (tier != "quick" or len(edges) <= 2):
                out.append((prop, n, edges, True))
            if edges and (tier != "quick" or len(edges) <= 3):
                out.append((prop, n, edges, False, "outdir"))
                out.append((prop, n, edges, False, "self"))
                out.append((prop, n, edges, True, "owner"))
                if tier != "quick":
                    out.append((prop, n, edges, True, "self"))
                    out.append((prop, n, edges, False, "owner"))
    return out


# ------------------------------------------------------------------------------------------ C01

def c01_oracle(ts, c):
    n = len(ts)
    ign = [any(inside(c, g) for g in t.get("ignores", []) or []) for t in ts]

    def silent(u):
        return any(ts[x]["path"] == u and ign[x] for x in range(n))
    res = []
    for mode in (0, 1):
        aff = [(not ign[t]) and (inside(c, ts[t]["path"]) or any(inside(c, u) and (mode == 1 or not silent(u)) for u in ts[t].get("uses", []) or [])) for t in range(n)]
        changed = True
        while changed:
            changed = False
            for t in range(n):
                if not aff[t] and not ign[t] and any(m != t and aff[m] and ts[m]["path"] != ts[t]["path"] and inside(ts[m]["path"], ts[t]["path"]) for m in range(n)):
                    aff[t] = True
                    changed = True
        res.append({ts[t]["path"] for t in range(n) if aff[t]})
    return res


CHANGES = ["a/f", "a/fa", "ab/f", "a/c/f", "a/c/fa", "a/cd/f", "a/c/e/f", "b/f", "lib/f", "lib2/f", "a/c/gen/f", "x.txt", "x.txt2", "lib/x"]


def c01_task(ts):
    # {"targets": ts, "out_dir": od}: the same with a configured output directory whose NAME is a string
    # prefix of targets, uses entries and changed paths without containing them (`li` next to lib, lib2, lib/x)
    od = None
    if isinstance(ts, dict):
        ts, od = ts["targets"], ts.get("out_dir")
    tm = {t["path"]: t for t in ts}
    if has_cycle(tm):
        return {"judged": 0, "v": []}
    s = sc.Scratch("c01cli")
    try:
        r = sc.Repo(s, "r", ts, cfg_extra={"out_dir": od} if od else None, files={".gitignore": "monorail-out\n/%s/\n" % od} if od else None)
        if r.mr("checkpoint", "update").code != 0:
            raise common.EngineError("checkpoint update failed")
        for c in CHANGES:
            r.write(c, "changed\n")
        # every target's committed f.txt is rewritten with the bytes it already has and gets another modification
        # time (git's cached stat data is stale, the content is not changed): these are not changes
        for t_ in ts:
            fp = r.path(os.path.join(t_["path"], "f.txt"))
            data = open(fp, "rb").read()
            with open(fp, "wb") as fh:
                fh.write(data)
            os.utime(fp, (1_000_000_000, 1_000_000_000))
        res = r.mr("analyze", "--all")
        d = res.json()
        v = []
        if res.code != 0 or d is None:
            v.append(("analyze-failed", "exit %s %s" % (res.code, res.err[:200])))
        else:
            got_paths = [c["path"] for c in d["changes"]]
            if sorted(got_paths) != sorted(CHANGES):
                v.append(("cli-change-list-differs", "changes %s" % got_paths))
            must, may = set(), set()
            for c in CHANGES:
                a, b = c01_oracle(ts, c)
                must |= a
                may |= b
            got = d["targets"]
            if not (must <= set(got) <= may):
                v.append(("cli-targets-wrong", "targets %s, required %s, allowed %s" % (got, sorted(must), sorted(may))))
            if got != sorted(set(got)):
                v.append(("cli-targets-unsorted", "%s" % got))
            union = {t["path"] for c in d["changes"] for t in (c.get("targets") or []) if t["reason"] != "ignores"}
            if union != set(got):
                v.append(("cli-summary-breakdown-mismatch", "summary %s vs breakdown union %s" % (got, sorted(union))))
            for c in d["changes"]:
                a, b = c01_oracle(ts, c["path"])
                g = {t["path"] for t in (c.get("targets") or []) if t["reason"] != "ignores"}
                if not (a <= g <= b):
                    v.append(("cli-breakdown-wrong", "change %s: %s, required %s allowed %s" % (c["path"], sorted(g), sorted(a), sorted(b))))
            # the summary does not depend on the output flags nor on how much the invocation logs about itself
            for flags, argv in ((["-vvv"], ["analyze", "--all"]), ([], ["analyze"]), (["-vvv"], ["analyze"]), (["-v"], ["analyze", "--target-groups"])):
                r.global_flags = flags
                d2 = r.mr(*argv).json()
                r.global_flags = None
                if d2 is None or d2.get("targets") != d["targets"]:
                    v.append(("cli-summary-depends-on-flags", "%s %s reports targets %s, analyze --all reports %s" % (" ".join(flags), " ".join(argv), d2 and d2.get("targets"), d["targets"])))
            # the same paths changed once more after they were recorded as pending, the new content arriving
            # with an old modification time (mv of an older file, cp -p, tar x): the same targets
            if r.mr("checkpoint", "update", "-p").code == 0:
                for c in CHANGES:
                    r.write(c, "changed again\n")
                    os.utime(r.path(c), (1_000_000_000, 1_000_000_000))
                d3 = r.mr("analyze", "--all").json()
                if d3 is None or d3.get("targets") != d["targets"] or sorted(c["path"] for c in d3.get("changes") or []) != sorted(CHANGES):
                    v.append(("cli-pending-then-changed-again", "every changed path was recorded as pending and then changed again (old mtime): targets %s, changes %s; before: targets %s" % (
                        d3 and d3.get("targets"), d3 and [c["path"] for c in d3.get("changes") or []], d["targets"])))
        return {"judged": 1, "v": [(sig, dd, {"cli_config": {"targets": ts, "out_dir": od}}) for sig, dd in v]}
    finally:
        s.cleanup()


def c01_cases(tier):
    dirs = ["a", "ab", "a/c", "a/cd", "a/c/e", "b"]
    entries = dirs + ["lib", "lib2", "lib/x", "a/f", "a/c/f", "a/c/gen", "x.txt"]
    out = []
    for k in (1, 2, 3):
        for tset in itertools.combinations(dirs, k):
            for ti in range(k):
                for u in entries:
                    for tj in range(k):
                        for g in entries:
                            ts = [{"path": p} for p in tset]
                            ts[ti]["uses"] = [u]
                            ts[tj]["ignores"] = [g]
                            out.append(ts)
    limit = 200 if tier == "quick" else 3000
    step = max(1, len(out) // limit)
    out = out[::step][:limit]
    # every fourth case with an output directory named `li`, every fourth with one named `a/c/ge` (inside a target,
    # next to the uses entry a/c/gen)
    return [{"targets": ts, "out_dir": "li"} if i % 4 == 1 else {"targets": ts, "out_dir": "a/c/ge"} if i % 4 == 3 else ts for i, ts in enumerate(out)]


# ------------------------------------------------------------------------------------------ driver

def _wrap(fn_name, arg):
    try:
        if fn_name == "c10" and arg == "@symlinks":
            v = c10_symlink_task(0)
            return {"judged": 1, "v": [(sig, d, {"cli_c10_symlinks": 1}) for sig, d in v]}
        if fn_name == "c10":
            v = c10_task(arg)
            return {"judged": 1, "v": [(sig, d, {"cli_config": {"targets": arg}}) for sig, d in v]}
        if fn_name == "graph":
            return graph_task(arg)
        if fn_name == "cyc":
            return cyc_ckpt_task(arg)
        if fn_name == "big":
            return big_cycle_task(arg)
        if fn_name == "acyc":
            return acyc_ckpt_task(arg)
        if fn_name == "sym":
            return symlink_targets_task(arg)
        if fn_name == "c01":
            return c01_task(arg)
    except common.EngineError as e:
        return {"engine_error": str(e)}
    except Exception:
        return {"engine_error": traceback.format_exc()[-1200:]}


def _w10(a):
    return _wrap("c10", a)


def _wg(a):
    return _wrap("graph", a)


def _wcy(a):
    return _wrap("cyc", a)


def _wsy(a):
    return _wrap("sym", a)


def _wbig(a):
    return _wrap("big", a)


def _wac(a):
    return _wrap("acyc", a)


def _w01(a):
    return _wrap("c01", a)


def run_slice(prop, tier):
    """Returns (cases judged, violations [{'sig','detail','rank','case'}])."""
    if prop == "C10":
        res = common.pmap(_w10, c10_cases(tier) + ["@symlinks"], chunksize=4)
    elif prop in ("C03", "C09"):
        res = common.pmap(_wg, graph_cases(prop, tier), chunksize=2)
        if prop == "C09":
            res += common.pmap(_wcy, cyc_ckpt_cases(tier), chunksize=1)
            res += common.pmap(_wbig, [51, 65, 257, 1030] if tier == "quick" else [51, 65, 101, 257, 513, 1030, 2051, 4100], chunksize=1)
        else:
            res += common.pmap(_wac, acyc_ckpt_cases(tier), chunksize=1)
            res += common.pmap(_wsy, ["declared", "reversed"], chunksize=1)
    elif prop == "C01":
        res = common.pmap(_w01, c01_cases(tier), chunksize=2)
    else:
        return 0, []
    errs = [r["engine_error"] for r in res if "engine_error" in r]
    if errs:
        raise common.EngineError("CLI slice: " + "; ".join(errs[:2]))
    judged = sum(r["judged"] for r in res)
    viol = [{"sig": "cli:" + sig, "detail": d, "rank": 10_000_000_000 + len(json.dumps(case)), "case": case} for r in res for sig, d, case in r["v"]]
    return judged, viol


def merge(result, prop, tier):
    """Adds the CLI slice to a vx result dict (in place) and returns it."""
    judged, viol = run_slice(prop, tier)
    result["traces_validated_against_impl"] = judged
    result["cli_slice_cases"] = judged
    result["evaluations"] = result.get("evaluations", 0) + judged
    result.setdefault("violations", []).extend(viol[:50])
    result["violation_count"] = result.get("violation_count", 0) + len(viol)
    by = result.setdefault("by_sig", {})
    for v in viol:
        by[v["sig"]] = by.get(v["sig"], 0) + 1
    result["rule"] = result.get("rule", "") + "; plus an end-to-end slice of %d CLI invocations judged by an independent Python copy of the oracle" % judged
    return result
