"""E2: explicit-state BFS over repository x checkpoint histories (C02, C07, C19; C05 part B).

The model (ModelState) is a boring description of git + checkpoint state used to enumerate enabled
operations and to deduplicate states; every new state is materialised in a real scratch repository
with the real git and the real monorail by replaying its operation list, its model is checked
against what is really on disk (conformance), and the property's invariants are evaluated there."""
import hashlib
import json
import multiprocessing
import os
import subprocess
import time
import traceback

import common
import scratch as sc

PATHS = ["a/f.txt", "b/n é.txt", "b/m.txt"]
NEWPATHS = ["a/new.txt", "b/new.txt"]
IGNORED = ["b/x.log"]   # excluded by the repository's .gitignore (*.log): never a change
TARGETS = [{"path": "a"}, {"path": "b", "uses": ["a/f.txt"]}]
ALL_TARGETS = ["a", "b"]
FRESH = "9"


def csha(cid):
    return hashlib.sha256(sc.content(cid).encode()).hexdigest()


SHA2CID = {csha(c): c for c in ["1", "2", "3", FRESH, "init-a"]}


def image(paths):
    """C01 oracle for the fixed configuration {a; b uses a/f.txt}."""
    out = set()
    for p in paths:
        if p == "a" or p.startswith("a/"):
            out.add("a")
        if p == "b" or p.startswith("b/") or p == "a/f.txt":
            out.add("b")
    return sorted(out)


class ModelState:
    def __init__(self):
        base = {"a/f.txt": "init-a"}
        self.commits = [dict(base)]
        self.index = dict(base)
        self.wt = dict(base)
        self.cp = None  # (commit index, pending tuple) | None

    def clone(self):
        m = ModelState.__new__(ModelState)
        m.commits = [dict(c) for c in self.commits]
        m.index = dict(self.index)
        m.wt = dict(self.wt)
        m.cp = self.cp
        return m

    def key(self):
        return json.dumps([self.commits, sorted(self.index.items()), sorted(self.wt.items()), self.cp], sort_keys=True)

    def changed_vs_head(self):
        """paths `checkpoint update -p` records: tracked diff HEAD..worktree plus untracked."""
        head = self.commits[-1]
        out = {}
        for p in set(head) | set(self.index):
            eff = self.wt.get(p) if p in self.index else None
            if eff != head.get(p):
                out[p] = self.wt.get(p)
        for p in self.wt:
            if p not in self.index and p not in IGNORED:
                out[p] = self.wt[p]
        return out

    def enabled(self, alphabet):
        ops = []
        for p in PATHS:
            for c in alphabet["contents"]:
                if self.wt.get(p) != c:
                    ops.append(["W", p, c])
        for p in IGNORED:
            if p not in self.wt:
                ops.append(["W", p, "1"])
        for p in PATHS + IGNORED:
            if p in self.wt:
                ops.append(["D", p])
        for p, q in alphabet["moves"]:
            if p in self.wt and q not in self.wt:
                ops.append(["MV", p, q])
                if p in self.index and q not in self.index:
                    ops.append(["GMV", p, q])
        if self._add_changes():
            ops.append(["ADD"])
        if self.index != self.commits[-1] and len(self.commits) < alphabet["max_commits"]:
            ops.append(["COMMIT"])
        ops.append(["CPU"])
        ops.append(["CPUP"])
        for k in alphabet["ids"]:
            if k < len(self.commits) - 1 or (k == 0 and len(self.commits) > 1):
                ops.append(["CPUI", k])
                ops.append(["CPUIP", k])
        if self.cp is not None:
            ops.append(["CPD"])
            ops.append(["OUTD"])
        return ops

    def _add_changes(self):
        return self.index != {p: c for p, c in self.wt.items() if p not in IGNORED}

    def apply(self, op):
        m = self.clone()
        k = op[0]
        if k == "W":
            m.wt[op[1]] = op[2]
        elif k == "D":
            del m.wt[op[1]]
        elif k == "MV":
            m.wt[op[2]] = m.wt.pop(op[1])
        elif k == "GMV":
            m.wt[op[2]] = m.wt.pop(op[1])
            m.index[op[2]] = m.index.pop(op[1])
        elif k == "ADD":
            m.index = {p: c for p, c in m.wt.items() if p not in IGNORED}
        elif k == "COMMIT":
            m.commits.append(dict(m.index))
        elif k in ("CPU", "CPUP", "CPUI", "CPUIP", "CPUE", "CPUEP"):
            # CPUE / CPUEP: `--id ""` - a checkpoint without a position: the tracked part is compared with
            # whatever HEAD is at the time of the analysis (index -1 = the latest commit)
            cid = len(m.commits) - 1 if k in ("CPU", "CPUP") else -1 if k in ("CPUE", "CPUEP") else op[1]
            pending = m.cp[1] if m.cp else None
            if k in ("CPUP", "CPUIP", "CPUEP"):
                ch = m.changed_vs_head()
                pending = tuple(sorted((p, c if c is not None else "missing") for p, c in ch.items())) if ch else None
            m.cp = (cid, pending)
        elif k in ("CPD", "OUTD"):
            m.cp = None
        return m


ALPHABETS = {
    "quick": {"contents": ["1", "2"], "moves": [("a/f.txt", "b/m.txt"), ("b/m.txt", "b/n é.txt")], "ids": [0], "max_commits": 3},
    "thorough": {"contents": ["1", "2", "3"], "moves": [("a/f.txt", "b/m.txt"), ("b/m.txt", "b/n é.txt"), ("b/n é.txt", "a/f.txt")], "ids": [0, 1], "max_commits": 3},
}


# ------------------------------------------------------------------------------------------ real side

class Real:
    """A materialised state: scratch repo + what the operations printed."""

    def __init__(self, s, out_dir=None):
        foreign = False
        symlink_out = False
        if out_dir == "@foreign-cwd":
            out_dir, foreign = None, True
        if out_dir == "@symlink-out":
            out_dir, symlink_out = None, True
        if out_dir == "@absolute-out":
            # an absolute output directory outside the repository, already existing
            out_dir = os.path.join(s.dir, "abs-out", "mr")
            os.makedirs(out_dir)
        self.s = s
        self.r = sc.Repo(s, "r", TARGETS, commands={"a": {"build": "x"}, "b": {"build": "x"}},
                         cfg_extra={"out_dir": out_dir} if out_dir else None,
                         files={"b/keep.txt": "keep\n", "a/keep.txt": "keep\n",
                                ".gitignore": "monorail-out\n*.log\n" + ("%s\n" % out_dir.split("/")[0] if out_dir else "")})
        if symlink_out:
            # the output directory is a symbolic link to a directory elsewhere (build output on a scratch disk)
            os.makedirs(os.path.join(s.dir, "scratch-disk", "mr-out"))
            os.symlink(os.path.join(s.dir, "scratch-disk", "mr-out"), self.r.path("monorail-out"))
        if foreign:
            self.elsewhere = self.r.foreign_cwd()
        self.commit_ids = [self.r.head()]
        self.last_update = None   # checkpoint object printed by the last successful update
        self.update_defects = []

    def apply(self, op):
        r = self.r
        k = op[0]
        if k == "W":
            r.write(op[1], sc.content(op[2]))
        elif k == "D":
            os.unlink(r.path(op[1]))
        elif k == "MV":
            os.rename(r.path(op[1]), r.path(op[2]))
        elif k == "GMV":
            r.git("mv", op[1], op[2])
        elif k == "ADD":
            r.git("add", "-A")
        elif k == "COMMIT":
            r.git("commit", "-q", "-m", "c%d" % len(self.commit_ids))
            self.commit_ids.append(r.head())
        elif k in ("CPU", "CPUP", "CPUI", "CPUIP", "CPUE", "CPUEP"):
            args = ["checkpoint", "update"]
            if k in ("CPUP", "CPUIP", "CPUEP"):
                args.append("-p")
            want_id = r.head()
            if k in ("CPUI", "CPUIP"):
                want_id = self.commit_ids[op[1]]
                args += ["--id", want_id]
            if k in ("CPUE", "CPUEP"):
                want_id = ""
                args += ["--id", ""]
            if len(op) > 1 and op[-1] == "git-path":
                import shutil as _sh
                args += ["--git-path", _sh.which("git")]   # the same git, named explicitly
            res = r.mr(*args)
            doc = res.json()
            if res.code != 0 or doc is None:
                self.update_defects.append(("update-failed", "%s failed: %r" % (op, res)))
            else:
                self.last_update = doc.get("checkpoint")
                if (self.last_update or {}).get("id") != want_id:
                    self.update_defects.append(("update-recorded-wrong-id", "%s printed id %s, expected %s" % (op, (self.last_update or {}).get("id"), want_id)))
        elif k == "CPD":
            res = r.mr("checkpoint", "delete")
            if res.code != 0:
                self.update_defects.append(("delete-failed", "%r" % res))
            self.last_update = None
        elif k == "OUTD":
            res = r.mr("out", "delete", "--all")
            if res.code != 0:
                self.update_defects.append(("out-delete-failed", "%r" % res))
            self.last_update = None
        elif k in ("RUN", "RUNF"):
            # surroundings (no effect in the model): the records of a successful / failed run appear on disk
            r.set_script("a", "build", ["out " + b"some output\n".hex(), "exit %d" % (0 if k == "RUN" else 1)])
            res = r.mr("run", "-c", "build", "-t", "a", "b", env=r.trace_env())
            if res.json() is None:
                raise common.EngineError("surrounding run printed no document: %r" % res)
            r.set_script("a", "build", ["exit 0"])
            r.clear_traces()
        elif k in ("RUNC", "ANA"):
            # surroundings (no effect in the model): a run of whatever is changed (no -t) / an analysis; neither
            # is an update of the checkpoint
            res = r.mr("run", "-c", "build", env=r.trace_env()) if k == "RUNC" else r.mr("analyze", "--all")
            if res.json() is None:
                raise common.EngineError("surrounding %s printed no document: %r" % (k, res))
            r.clear_traces()
        elif k == "LSN":
            # surroundings: from now on a `log tail` listener is attached
            lis = subprocess.Popen([common.MONORAIL, "log", "tail", "--stdout", "--stderr"], cwd=r.dir, env=self.s.env(),
                                   stdout=subprocess.DEVNULL, stderr=subprocess.DEVNULL, start_new_session=True)
            self.s.popens.append(lis)
            t_end = time.time() + 10
            while not sc.port_listening(r.log_port):
                if lis.poll() is not None or time.time() > t_end:
                    raise common.EngineError("log tail did not start")
                time.sleep(0.02)

    # ---- observations of the real state
    def worktree(self):
        out = {}
        for p in PATHS + NEWPATHS + IGNORED:
            fp = self.r.path(p)
            if os.path.isfile(fp):
                out[p] = hashlib.sha256(open(fp, "rb").read()).hexdigest()
        return out

    def index_paths(self):
        out = self.r.git("-c", "core.quotePath=false", "ls-files", "-z")
        return set(x for x in out.split("\0") if x)

    def tree_of(self, commit):
        out = self.r.git("-c", "core.quotePath=false", "ls-tree", "-r", "-z", commit)
        tree = {}
        for ent in out.split("\0"):
            if not ent:
                continue
            meta, path = ent.split("\t", 1)
            tree[path] = meta.split()[2]
        return tree

    def blob_sha256(self, blob):
        import subprocess
        data = subprocess.run(["git", "cat-file", "blob", blob], cwd=self.r.dir, env=self.s.env(), capture_output=True).stdout
        return hashlib.sha256(data).hexdigest()


def conformance(model, real):
    """The model's git state must equal what is really on disk (else the dedup key is unsound)."""
    wt = real.worktree()
    mwt = {p: csha(c) for p, c in model.wt.items()}
    if wt != mwt:
        return "worktree differs: real %s model %s" % (sorted(wt), sorted(mwt))
    idx = set(p for p in real.index_paths() if p in PATHS + NEWPATHS)
    if idx != set(model.index):
        return "index differs: real %s model %s" % (sorted(idx), sorted(model.index))
    if len(real.commit_ids) != len(model.commits):
        return "commit count differs"
    return None


def analyze_changes(real, extra=()):
    res = real.r.mr("analyze", "--changes", *extra)
    doc = res.json()
    if res.code != 0 or doc is None:
        return None, res
    return doc, res


def expected_changes(model, real, pending, begin=None, end=None):
    """The statement's right-hand side, over the real files (pending is the shown map)."""
    # a missing --begin means the checkpoint commit, a missing --end the working tree
    base = model.commits[model.cp[0]] if begin is None else model.commits[begin]
    if end is None:
        top = {p: (model.wt.get(p) if p in model.index else None) for p in set(base) | set(model.index)}
        tracked = {p for p in set(base) | set(model.index) if top.get(p) != base.get(p)}
    else:
        te = model.commits[end]
        tracked = {p for p in set(base) | set(te) if base.get(p) != te.get(p)}
    untracked = {p for p in model.wt if p not in model.index and p not in IGNORED}
    out = set()
    for p in tracked | untracked:
        cur = csha(model.wt[p]) if p in model.wt else ""
        if pending and p in pending and pending[p] == cur:
            continue
        out.add(p)
    return sorted(out, key=lambda x: x.encode())


def touch_all(real):
    """Rewrites every file of the working tree with the bytes it already has and gives it a different
    modification time: the content is unchanged, only the stat data git caches in its index is stale."""
    for root, dirs, files in os.walk(real.r.dir):
        dirs[:] = [d for d in dirs if d not in (".git", "monorail-out", "var", "monorail")]
        for f in files:
            fp = os.path.join(root, f)
            if f == "Monorail.json" or os.path.islink(fp):
                continue
            data = open(fp, "rb").read()
            with open(fp, "wb") as fh:
                fh.write(data)
            os.utime(fp, (978307200, 978307200))


def inv_c02(model, real, tier):
    v = []
    evals = 0
    if model.cp is None:
        return v, evals, None
    show = real.r.mr("checkpoint", "show").json()
    pending = ((show or {}).get("checkpoint") or {}).get("pending") or {}
    ranges = [(None, None)]
    n = len(model.commits)
    for i in range(n):
        for j in range(n):
            if i != j or n == 1:
                ranges.append((i, j))
    for i in range(n):
        ranges.append((i, None))   # --begin alone: that commit .. working tree
        if model.cp[0] != -1:
            ranges.append((None, i))   # --end alone: checkpoint .. that commit (undefined for a checkpoint without an id)
    observed = None
    for (b, e) in ranges:
        extra = ([] if b is None else ["-b", real.commit_ids[b]]) + ([] if e is None else ["-e", real.commit_ids[e]])
        doc, res = analyze_changes(real, extra)
        evals += 1
        if doc is None:
            if (b is None) != (e is None):
                continue   # a one-sided interval that is refused outright is not covered by the statement
            v.append(("analyze-failed", "analyze --changes %s failed: %r" % (extra, res)))
            continue
        got = [c["path"] for c in doc.get("changes") or []]
        want = expected_changes(model, real, pending, b, e)
        if b is None and e is None:
            observed = got
        if sorted(set(got), key=lambda x: x.encode()) != want:
            missing = [p for p in want if p not in got]
            extra_p = [p for p in got if p not in want]
            if any(p.startswith('"') for p in extra_p):
                sig = "path-quoted"
            elif missing and not extra_p and _moved_sources(model, missing):
                sig = "moved-file-old-path-missing"
            else:
                sig = "change-set-wrong"
            v.append((sig, "range %s: reported %s, expected %s (missing %s, extra %s)" % (
                "%s..%s" % ("checkpoint" if b is None else "c%d" % b, "worktree" if e is None else "c%d" % e), got, want, missing, extra_p)))
        elif got != sorted(got, key=lambda x: x.encode()):
            v.append(("unsorted", "range %s: %s" % ((b, e), got)))
    # the same content written again with another modification time is not a change
    touch_all(real)
    for (b, e) in [(None, None)] + [(i, None) for i in range(n)]:
        extra = ([] if b is None else ["-b", real.commit_ids[b]])
        doc, res = analyze_changes(real, extra)
        evals += 1
        got = None if doc is None else sorted({c["path"] for c in doc.get("changes") or []}, key=lambda x: x.encode())
        want = expected_changes(model, real, pending, b, e)
        if got != want:
            v.append(("unchanged-content-reported", "range %s..worktree after every file was rewritten with the bytes it already had (new mtime): reported %s, expected %s" % ("checkpoint" if b is None else "c%d" % b, got, want)))
    return v, evals, observed


def _moved_sources(model, missing):
    # every missing path is absent from the worktree while its content now lives under another name
    for p in missing:
        if p in model.wt:
            return False
    return True


def inv_c19(model, real, tier, ops=None):
    v = list(real.update_defects)
    evals = 1
    # an update that FAILS (git cannot be started) must leave the store exactly as it was: tried first,
    # so that everything below is evaluated on the state after the failed attempts
    for extra in ([], ["-p"]):
        fres = real.r.mr("checkpoint", "update", "--git-path", "/nonexistent/git", *extra)
        evals += 1
        if fres.code == 0:
            v.append(("failing-update-succeeded", "checkpoint update with an unusable git exited 0: %s" % fres.out[:150]))
    show = real.r.mr("checkpoint", "show")
    sdoc = show.json()
    if real.last_update is None:
        if show.code == 0:
            v.append(("show-succeeds-without-checkpoint", "checkpoint show printed %s although no checkpoint should exist" % (sdoc,)))
        doc = real.r.mr("analyze").json()
        evals += 1
        if doc is None or doc.get("checkpointed") is not False or doc.get("targets") != ALL_TARGETS:
            v.append(("no-checkpoint-not-everything-changed", "analyze without checkpoint printed %s" % (doc,)))
        real.r.clear_traces()
        res = real.r.mr("run", "-c", "build", env=real.r.trace_env())
        evals += 1
        started = sorted({real.r.target_pair(t)[0] for t in real.r.traces()})
        rdoc = res.json()
        covered = sorted({t for cr in (rdoc or {}).get("results", []) for g in cr["target_groups"] for t in g})
        if res.code != 0 or started != ALL_TARGETS or covered != ALL_TARGETS:
            v.append(("run-without-checkpoint-not-all-targets", "run covered %s, started %s, exit %s" % (covered, started, res.code)))
        # an explicit interval does not conjure up a checkpoint: still everything is changed
        for extra in (["-b", real.commit_ids[-1]], ["-b", real.commit_ids[0], "-e", real.commit_ids[-1]]):
            doc = real.r.mr("analyze", *extra).json()
            evals += 1
            if doc is None or doc.get("checkpointed") is not False or doc.get("targets") != ALL_TARGETS:
                v.append(("no-checkpoint-not-everything-changed", "analyze %s without a checkpoint printed %s" % (" ".join(x[:8] for x in extra), doc)))
        real.r.clear_traces()
        res = real.r.mr("run", "-c", "build", "-b", real.commit_ids[-1], env=real.r.trace_env())
        evals += 1
        started = sorted({real.r.target_pair(t)[0] for t in real.r.traces()})
        if res.code != 0 or started != ALL_TARGETS:
            v.append(("run-without-checkpoint-not-all-targets", "run --begin HEAD without a checkpoint started %s, exit %s" % (started, res.code)))
    else:
        got = (sdoc or {}).get("checkpoint")
        if show.code != 0 or got != real.last_update:
            v.append(("show-differs-from-last-update", "show %s vs last update %s" % (got, real.last_update)))
    obs = json.dumps((sdoc or {}).get("checkpoint"), sort_keys=True)
    # suffix probe from this state (the model merges histories that reach the same store; the
    # implementation might not): one more update, one more update -p, then delete - show must follow each
    # update and after the delete no checkpoint may exist, however many updates came before
    if tier == "quick" and ops and ops[-1][0] not in ("CPU", "CPUP", "CPUI", "CPD", "OUTD"):
        return v, evals, obs   # quick: only from states whose last operation touched the store
    for extra in ([], ["-p"]):
        up = real.r.mr("checkpoint", "update", *extra)
        sh = real.r.mr("checkpoint", "show")
        evals += 1
        if up.code != 0 or sh.code != 0 or (up.json() or {}).get("checkpoint") != (sh.json() or {}).get("checkpoint"):
            v.append(("show-differs-from-last-update", "suffix probe: update %s printed %s, show printed %s" % (extra, up.out[:150], sh.out[:150])))
    # the id may be given in any spelling git understands (abbreviated, HEAD, HEAD~1, a branch name): whatever
    # update accepted and printed is what show returns
    head = real.commit_ids[-1]
    forms = [head[:7], head[:12], "HEAD", real.r.git("rev-parse", "--abbrev-ref", "HEAD").strip()] + (["HEAD~1"] if len(real.commit_ids) > 1 else [])
    for idv in forms:
        up = real.r.mr("checkpoint", "update", "--id", idv)
        if up.code != 0:
            continue   # an id spelling that update refuses is not covered by the statement
        sh = real.r.mr("checkpoint", "show")
        evals += 1
        if sh.code != 0 or (up.json() or {}).get("checkpoint") != (sh.json() or {}).get("checkpoint"):
            v.append(("show-differs-from-last-update", "suffix probe: update --id %s printed %s, show printed %s" % (idv, up.out[:150], sh.out[:150])))
    de = real.r.mr("checkpoint", "delete")
    sh = real.r.mr("checkpoint", "show")
    doc = real.r.mr("analyze").json()
    evals += 1
    if de.code != 0 or sh.code == 0:
        v.append(("show-succeeds-without-checkpoint", "suffix probe: after update, update -p, delete (exit %s) checkpoint show still prints %s" % (de.code, sh.out[:150])))
    if doc is None or doc.get("checkpointed") is not False or doc.get("targets") != ALL_TARGETS:
        v.append(("no-checkpoint-not-everything-changed", "suffix probe: after update, update -p, delete analyze printed %s" % (doc,)))
    return v, evals, obs


def inv_c07(model, real, ops, tier):
    """Evaluated in states whose last operation is an update with --pending and HEAD as id."""
    v = []
    evals = 0
    if not ops or ops[-1][0] != "CPUP":
        return v, evals, None
    r = real.r

    def targets():
        d = r.mr("analyze").json()
        return None if d is None else d.get("targets")

    def run_nothing(label):
        r.clear_traces()
        res = r.mr("run", "-c", "build", env=r.trace_env())
        doc = res.json()
        started = [r.target_pair(t) for t in r.traces()]
        covered = sorted({t for cr in (doc or {}).get("results", []) for g in cr["target_groups"] for t in g})
        if res.code != 0 or started or covered:
            v.append(("run-executes-after-pending-update", "%s: run started %s, reported %s, exit %s" % (label, started, covered, res.code)))

    t = targets()
    evals += 1
    if t != []:
        v.append(("targets-after-pending-update", "analyze right after `checkpoint update -p` reports %s" % (t,)))
    run_nothing("after update -p")
    touch_all(real)
    t = targets()
    evals += 1
    if t != []:
        v.append(("unchanged-content-reflagged", "after update -p every file was rewritten with the bytes it already had (new mtime): analyze reports %s" % (t,)))
    evals += 1
    # later edits: each from this state, on the real repository, undone afterwards
    # change to content the file never had (a new content id per trial), creation of a file with
    # any content (fresh or one it had before), deletion of a committed file
    edits = [("W", p, FRESH) for p in PATHS if p in model.wt] + \
            [("W", p, c) for p in PATHS + NEWPATHS if p not in model.wt for c in ["1", "2", FRESH]] + \
            [("D", p) for p in PATHS if p in model.wt and p in model.commits[-1]] + \
            [("W", p, FRESH) for p in IGNORED] + \
            [("W", p, "@empty") for p in (PATHS + NEWPATHS if tier != "quick" else [q for q in PATHS + NEWPATHS[:1] if q not in model.wt] + [q for q in PATHS if q in model.wt][:1])] + \
            [("W", p, "@symlink") for p in [q for q in PATHS if q in model.wt][: (1 if tier == "quick" else 9)]]   # the file replaced by a symbolic link to another file (reading the path now yields content it never had)
    seqs = [[e] for e in edits]
    # file times must not matter: the same content change arriving with a modification time far in
    # the past (mv of an older file, cp -p, tar x)
    om = [e for e in edits if e[0] == "W" and e[2] not in ("@symlink", "@empty")]
    if tier == "quick":
        om = om[::3]
    seqs += [[("W", e[1], e[2], "old-mtime")] for e in om]
    if tier == "thorough":
        seqs += [[e1, e2] for e1 in edits for e2 in edits if e1[1] < e2[1]]
    trial = [0]

    def fresh(e):
        if e[0] == "W" and e[2] == FRESH:
            trial[0] += 1
            return ("W", e[1], "%s-%s-%d" % (FRESH, len(ops), trial[0])) + tuple(e[3:])
        return e
    for seq in seqs:
        seq = [fresh(e) for e in seq]
        saved = {}
        for e in seq:
            fp = r.path(e[1])
            saved[e[1]] = open(fp, "rb").read() if os.path.isfile(fp) else None
        for e in seq:
            fp = r.path(e[1])
            if e[0] == "W" and e[2] == "@symlink":
                os.unlink(fp)
                os.symlink("keep.txt", fp)   # a/keep.txt and b/keep.txt are committed files with other content
            elif e[0] == "W":
                r.write(e[1], "" if e[2] == "@empty" else sc.content(e[2]))
                if len(e) > 3:
                    os.utime(fp, (1_000_000_000, 1_000_000_000))
            elif os.path.isfile(fp):
                os.unlink(fp)
        want = image([e[1] for e in seq if e[1] not in IGNORED])
        got = targets()
        evals += 1
        if got != want:
            sig = "edit-not-reflagged" if got is not None and set(got) < set(want) else "edit-flags-wrong-targets"
            v.append((sig, "after update -p then %s: analyze reports %s, expected %s" % (seq, got, want)))
        if len(seq) == 1:
            # updating again clears them
            res = r.mr("checkpoint", "update", "-p")
            t2 = targets()
            evals += 1
            if res.code != 0 or t2 != []:
                v.append(("second-update-does-not-clear", "after %s and a second update -p analyze reports %s" % (seq, t2)))
        # undo the edit and restore the checkpoint of this state
        for p, data in saved.items():
            fp = r.path(p)
            if data is None:
                if os.path.isfile(fp):
                    os.unlink(fp)
            else:
                if os.path.islink(fp):
                    os.unlink(fp)   # never write through the link
                r.write(p, data)
        if len(seq) == 1:
            r.mr("checkpoint", "update", "-p")
    return v, evals, None


# ---- C07: file sizes around the checksum reader's buffer and read-size boundaries

SIZES_Q = [65535, 65536, 65537, 200000, 2 * 1024 * 1024 + 1]
SIZES_T = SIZES_Q + [1, 131072, 2 * 1024 * 1024, 4 * 1024 * 1024 + 5, 9 * 1024 * 1024]


def big(size, seed=0):
    unit = ("%d:" % seed + "0123456789abcdefghijklmnopqrstuvwxyz\n").encode()
    return (unit * (size // len(unit) + 1))[:size]


def size_task(task):
    """A file of `size` bytes is pending (untracked / modified / staged) at `checkpoint update -p`;
    afterwards single-byte edits at chosen offsets, an append and a truncation must each re-flag it."""
    size, mode = task[0], task[1]
    prop = task[2] if len(task) > 2 else "C07"
    s = sc.Scratch("c07size")
    try:
        real = Real(s)
        r = real.r
        path = "b/big.bin" if mode != "modified" else "a/f.txt"
        data = big(size)
        if mode == "modified":
            r.write(path, data)       # tracked file, new content, unstaged
        elif mode == "staged":
            r.write(path, data)
            r.git("add", "-A")
        else:
            r.write(path, data)       # untracked
        v = []
        evals = 0

        def targets():
            if prop == "C02":
                # C02 judges the reported change list itself (mapped back to the same shape)
                d = r.mr("analyze", "--changes").json()
                if d is None:
                    return None
                ch = [c["path"] for c in d.get("changes") or []]
                return [] if not ch else (image([path]) if ch == [path] else ["<changes %s>" % ch])
            d = r.mr("analyze").json()
            return None if d is None else d.get("targets")
        if r.mr("checkpoint", "update", "-p").code != 0:
            raise common.EngineError("update -p failed")
        t = targets()
        evals += 1
        if t != []:
            v.append(("targets-after-pending-update", "%d-byte %s file pending at update -p: analyze reports %s" % (size, mode, t)))
        want = image([path])
        offs = sorted({0, size // 2, size - 1, min(size - 1, 65535), min(size - 1, 65536), min(size - 1, 2 * 1024 * 1024 - 1), min(size - 1, 2 * 1024 * 1024), min(size - 1, 2 * 1024 * 1024 + 1)})
        edits = [("flip@%d" % o, data[:o] + bytes([data[o] ^ 1]) + data[o + 1:]) for o in offs]
        edits.append(("append", data + b"!"))
        if size > 1:
            edits.append(("truncate-last", data[:-1]))
        edits += [(n + "+old-mtime", d) for n, d in edits[:2] + edits[-2:]]   # file times must not matter
        for name, newdata in edits:
            r.write(path, newdata)
            if name.endswith("+old-mtime"):
                os.utime(r.path(path), (1_000_000_000, 1_000_000_000))
            got = targets()
            evals += 1
            if got != want:
                v.append(("large-file-edit-not-reflagged", "%d-byte %s file, edit %s after update -p: analyze reports %s, expected %s" % (size, mode, name, got, want)))
            r.write(path, data)
        got = targets()
        evals += 1
        if got != []:
            v.append(("restored-file-still-flagged", "%d-byte %s file restored to its recorded content: analyze reports %s" % (size, mode, got)))
        return {"violations": [{"sig": sig, "detail": d, "rank": 50 + len(str(size)), "case": {"size_case": [size, mode, prop]}} for sig, d in v],
                "evals": evals, "obs": None, "nontrivial": 1}
    except common.EngineError as e:
        return {"engine_error": "%s (size case %s)" % (e, task)}
    except Exception:
        return {"engine_error": "size case %s: %s" % (task, traceback.format_exc()[-1200:])}
    finally:
        s.cleanup()


# ---- C19 / C07: pairs of consecutive `update -p` with different pending sets

SWAP_PATHS = ["a/f.txt", "b/m.txt", "a/g.txt"]   # one tracked file, two untracked candidates


def swap_configs():
    import itertools
    return list(itertools.product([None, "1", "2"], repeat=len(SWAP_PATHS)))


def swap_task(task):
    """Worktree set to S1, update (-p), worktree set to S2, second update: `checkpoint show` must equal
    what the second update printed, and (for -p) analyze must report nothing."""
    s1, s2, second, prop = task
    s = sc.Scratch("swap")
    try:
        real = Real(s)
        r = real.r
        orig = open(r.path("a/f.txt")).read()

        def set_wt(cfg):
            for p, c in zip(SWAP_PATHS, cfg):
                fp = r.path(p)
                if c is None:
                    if p == "a/f.txt":
                        r.write(p, orig)
                    elif os.path.isfile(fp):
                        os.unlink(fp)
                else:
                    r.write(p, sc.content(c))
        v = []
        set_wt(s1)
        real.apply(["CPUP"])
        set_wt(s2)
        real.apply(second)
        v += real.update_defects
        show = r.mr("checkpoint", "show")
        got = (show.json() or {}).get("checkpoint")
        if show.code != 0 or got != real.last_update:
            v.append(("show-differs-from-last-update", "pending sets %s then %s (%s): show %s vs last update %s" % (s1, s2, second[0], got, real.last_update)))
        evals = 1
        if second[0] == "CPUP":
            d = r.mr("analyze").json()
            evals += 1
            if d is None or d.get("targets") != []:
                v.append(("targets-after-pending-update", "pending sets %s then %s: analyze after the second update -p reports %s" % (s1, s2, d and d.get("targets"))))
        if prop == "C07" and second[0] == "CPUP":
            # later edits after the second update: creation of a file (with a content it may have had
            # before), change to fresh content, deletion of a committed file
            trials = []
            for p, c in zip(SWAP_PATHS, s2):
                if c is None and p != "a/f.txt":
                    trials += [(p, "1"), (p, "2")]
                else:
                    trials += [(p, "fresh-%s" % p)]
            trials.append(("a/f.txt", None))
            for p, c in trials:
                fp = r.path(p)
                saved = open(fp).read() if os.path.isfile(fp) else None
                if c is None:
                    os.unlink(fp)
                else:
                    r.write(p, sc.content(c))
                d = r.mr("analyze").json()
                evals += 1
                want = image([p])
                if d is None or d.get("targets") != want:
                    v.append(("edit-not-reflagged", "pending sets %s then %s, both recorded with update -p; then %s %s: analyze reports %s, expected %s" % (
                        s1, s2, "deleting" if c is None else "writing content %s to" % c, p, d and d.get("targets"), want)))
                if saved is None:
                    os.unlink(fp)
                else:
                    r.write(p, saved)
        keep = ("show-differs-from-last-update", "update-recorded-wrong-id", "update-failed") if prop == "C19" else ("targets-after-pending-update", "edit-not-reflagged")
        v = [x for x in v if x[0] in keep]
        return {"violations": [{"sig": sig, "detail": d, "rank": 40, "case": {"swap_case": [list(s1), list(s2), second, prop]}} for sig, d in v],
                "evals": evals, "obs": None, "nontrivial": 1 if s1 != s2 else 0}
    except common.EngineError as e:
        return {"engine_error": "%s (swap case %s)" % (e, task)}
    except Exception:
        return {"engine_error": "swap case %s: %s" % (task, traceback.format_exc()[-1200:])}
    finally:
        s.cleanup()


# ---- C07 / C19 / C02: many pending paths at once (sizes chosen so that work finishes out of order)

def many_task(task):
    n, prop = task
    tier_quick = os.environ.get("VERIF_TIER_THOROUGH") != "1"
    s = sc.Scratch("many")
    try:
        real = Real(s)
        r = real.r
        names = []
        for i in range(n):
            p = "%s/p%03d.txt" % ("b" if i % 2 else "a", i)
            size = [300000, 10, 70000, 1, 5000][i % 5]
            r.write(p, big(size, seed=i))
            names.append(p)
        if n >= 3:
            r.git("add", names[1])            # one staged
        r.write("a/f.txt", sc.content("1"))   # one modified tracked file
        os.unlink(r.path("b/keep.txt"))       # one deleted tracked file
        all_pending = sorted(names + ["a/f.txt", "b/keep.txt"], key=lambda x: x.encode())
        v = []
        evals = 0
        if prop == "C02":
            r.mr("checkpoint", "update")
            d = r.mr("analyze", "--changes").json()
            evals += 1
            got = None if d is None else [c["path"] for c in d.get("changes") or []]
            if got != all_pending:
                v.append(("change-set-wrong", "%d pending paths: reported %s..., expected %s..." % (n, (got or [])[:5], all_pending[:5])))
            if n >= 200:
                # recorded as pending, then asked again by a process that may hold only few files open at a time:
                # every path still has its recorded checksum, so nothing is reported
                real.apply(["CPUP"])
                dl = r.mr("analyze", "--changes", nofile=64).json()
                evals += 1
                gl = None if dl is None else [c["path"] for c in dl.get("changes") or []]
                if gl != []:
                    v.append(("change-set-wrong", "%d pending paths recorded by update -p, analyze --changes under a descriptor limit of 64: %s paths reported (%s...), expected none" % (n, None if gl is None else len(gl), (gl or [])[:3])))
        else:
            real.apply(["CPUP"])
            v += [x for x in real.update_defects]
            if prop == "C19":
                show = r.mr("checkpoint", "show")
                got = (show.json() or {}).get("checkpoint")
                evals += 1
                if show.code != 0 or got != real.last_update:
                    v.append(("show-differs-from-last-update", "%d pending paths: show differs from what update printed" % n))
                pend = (real.last_update or {}).get("pending") or {}
                if sorted(pend, key=lambda x: x.encode()) != all_pending:
                    v.append(("update-pending-set-wrong", "%d pending paths: update recorded %d paths" % (n, len(pend))))
            else:
                d = r.mr("analyze").json()
                evals += 1
                if d is None or d.get("targets") != []:
                    v.append(("targets-after-pending-update", "%d pending paths recorded by update -p: analyze reports %s" % (n, d and d.get("targets"))))
                if n >= 200:
                    # the same question asked by a process that may hold only few files open at a time
                    for lim in ((64,) if tier_quick else (64, 256)):
                        dl = r.mr("analyze", "--changes", nofile=lim).json()
                        evals += 1
                        if dl is None or (dl.get("changes") or []) != [] or dl.get("targets") != []:
                            v.append(("targets-after-pending-update", "%d pending paths recorded by update -p, analyze under a descriptor limit of %d: %d changes reported, targets %s" % (n, lim, len((dl or {}).get("changes") or []), dl and dl.get("targets"))))
                for p in [names[0], names[-1], "a/f.txt"]:
                    saved = open(r.path(p), "rb").read()
                    r.write(p, saved + b"edited\n")
                    d = r.mr("analyze").json()
                    evals += 1
                    if d is None or d.get("targets") != image([p]):
                        v.append(("edit-not-reflagged", "%d pending paths, then editing %s: analyze reports %s, expected %s" % (n, p, d and d.get("targets"), image([p]))))
                    r.write(p, saved)
        return {"violations": [{"sig": sig, "detail": d, "rank": 60, "case": {"many_case": [n, prop]}} for sig, d in v],
                "evals": evals, "obs": None, "nontrivial": 1}
    except common.EngineError as e:
        return {"engine_error": "%s (many case %s)" % (e, task)}
    except Exception:
        return {"engine_error": "many case %s: %s" % (task, traceback.format_exc()[-1200:])}
    finally:
        s.cleanup()


# ---- C02 / C07: unusual file names must be reported verbatim and keyed verbatim

ODD_NAMES = ["b/trailing space ", "b/ leading space", " lead dir/x.txt", "b/two  spaces.txt", "b/tab\there.txt",
             "b/quote\"q.txt", "b/back\\slash.txt", "b/caf\u00e9-\U0001F680.txt", "b/-dash", "b/#hash", "b/[glob]*?.txt",
             "b/.hidden", "b/" + "x" * 200, "b/new\nline.txt", "a/f.txt ", "b/percent%41", "b/semi;colon&amp", "b/trailing.dot."]


def name_task(task):
    """One unusual name, as an untracked file and as a tracked+modified file: `analyze --changes`
    reports it verbatim; after `update -p` it is clean; a later edit re-flags it."""
    idx, prop = task
    name = ODD_NAMES[idx]
    s = sc.Scratch("names")
    try:
        real = Real(s)
        r = real.r
        v = []
        evals = 0
        r.mr("checkpoint", "update")

        def changes():
            d = r.mr("analyze", "--changes").json()
            return None if d is None else [c["path"] for c in d.get("changes") or []]

        def targets():
            d = r.mr("analyze").json()
            return None if d is None else d.get("targets")
        for phase in ("untracked", "tracked-modified"):
            if phase == "untracked":
                r.write(name, "one\n")
            else:
                r.git("add", "-A")
                r.git("commit", "-q", "-m", "add odd name")
                r.mr("checkpoint", "update")
                r.write(name, "two\n")
            got = changes()
            evals += 1
            if prop == "C02":
                if got != [name]:
                    v.append(("path-not-verbatim", "%s file named %r: analyze --changes reports %r" % (phase, name, got)))
            else:
                want = image([name])
                t = targets()
                if t != want:
                    v.append(("edit-flags-wrong-targets", "%s file named %r: analyze reports targets %s, expected %s" % (phase, name, t, want)))
                if r.mr("checkpoint", "update", "-p").code != 0:
                    v.append(("update-failed", "update -p failed with a pending file named %r" % name))
                t = targets()
                evals += 1
                if t != []:
                    v.append(("targets-after-pending-update", "file named %r pending at update -p: analyze reports %s" % (name, t)))
                r.write(name, "three-%s\n" % phase)
                t = targets()
                evals += 1
                if t != want:
                    v.append(("edit-not-reflagged", "file named %r edited after update -p: analyze reports %s, expected %s" % (name, t, want)))
        return {"violations": [{"sig": sig, "detail": d, "rank": 70, "case": {"name_case": [idx, prop]}} for sig, d in v],
                "evals": evals, "obs": None, "nontrivial": 1}
    except common.EngineError as e:
        return {"engine_error": "%s (name case %r)" % (e, name)}
    except Exception:
        return {"engine_error": "name case %r: %s" % (name, traceback.format_exc()[-1200:])}
    finally:
        s.cleanup()


UNTRACKED_DIRS = ["a/gen", "b/new dir", "b/deep/er/still", "top-level-dir", "a/caf\u00e9-dir"]


def untracked_dir_task(task):
    """A directory with no tracked file anywhere below it exists (with two files) when the checkpoint is
    updated with --pending. C02: its files are reported one by one, verbatim. C07: right after the
    update nothing is changed; a new file, a content change and a new file in its subdirectory each
    re-flag exactly the targets of that path, and a second update clears them."""
    idx, prop = task
    d = UNTRACKED_DIRS[idx]
    s = sc.Scratch("udir")
    try:
        real = Real(s)
        r = real.r
        v = []
        evals = 0
        if r.mr("checkpoint", "update").code != 0:
            raise common.EngineError("checkpoint update failed")
        f1, f2, f3 = d + "/one.txt", d + "/sub/two.txt", d + "/three.txt"
        r.write(f1, "one\n")
        r.write(f2, "two\n")

        def changes():
            doc = r.mr("analyze", "--changes").json()
            return None if doc is None else [c["path"] for c in doc.get("changes") or []]

        def targets():
            doc = r.mr("analyze").json()
            return None if doc is None else doc.get("targets")
        got = changes()
        evals += 1
        if prop == "C02":
            if got != sorted([f1, f2], key=lambda x: x.encode()):
                v.append(("untracked-directory-not-listed-by-file", "untracked directory %r holding %s: analyze --changes reports %r" % (d, [f1, f2], got)))
        else:
            if targets() != image([f1, f2]):
                v.append(("edit-flags-wrong-targets", "untracked directory %r: analyze reports %s, expected %s" % (d, targets(), image([f1, f2]))))
            if r.mr("checkpoint", "update", "-p").code != 0:
                v.append(("update-failed", "update -p failed with the untracked directory %r" % d))
            t = targets()
            evals += 1
            if t != []:
                v.append(("targets-after-pending-update", "untracked directory %r pending at update -p: analyze reports %s" % (d, t)))
            for label, act, path in (("a new file inside it", lambda: r.write(f3, "three\n"), f3),
                                     ("a changed file inside it", lambda: r.write(f1, "one, edited\n"), f1),
                                     ("a second new file in its subdirectory", lambda: r.write(d + "/sub/four.txt", "four\n"), d + "/sub/four.txt")):
                act()
                t = targets()
                evals += 1
                want = image([path])
                # (deleting a pending, never committed file is not covered by the statement: not tried)
                if t != want:
                    v.append(("edit-not-reflagged", "untracked directory %r pending at update -p, then %s: analyze reports %s, expected %s" % (d, label, t, want)))
                if r.mr("checkpoint", "update", "-p").code != 0 or targets() != []:
                    v.append(("second-update-does-not-clear", "untracked directory %r, %s, second update -p: analyze reports %s" % (d, label, targets())))
        return {"violations": [{"sig": sig, "detail": dd, "rank": 75, "case": {"udir_case": [idx, prop]}} for sig, dd in v],
                "evals": evals, "obs": None, "nontrivial": 1}
    except common.EngineError as e:
        return {"engine_error": "%s (untracked directory %r)" % (e, d)}
    except Exception:
        return {"engine_error": "untracked directory %r: %s" % (d, traceback.format_exc()[-1200:])}
    finally:
        s.cleanup()


def ignored_paths_task(variant):
    """C02 speaks about paths, not about targets: a changed path that a target's `ignores` covers (and
    that therefore selects no target) is still a change and must be listed, in every output mode."""
    s = sc.Scratch("ign")
    try:
        ts = [{"path": "a", "ignores": ["a/vendor", "a/NOTES.md"]}, {"path": "b", "uses": ["a/vendor/shared"]}, {"path": "c"}]
        # the change set does not depend on the configured targets at all: a configuration with an empty
        # target list, or without the key, reports the same paths
        variant, _, tv = variant.partition("/")
        gx = tv == "global-excludes"
        if gx:
            # the user's own git configuration names an excludes file (core.excludesFile): what it excludes is
            # excluded by gitignore like anything else and is not an untracked change
            tv = ""
            with open(os.path.join(s.dir, ".gitconfig"), "w") as f:
                f.write("[core]\n\texcludesFile = %s\n" % os.path.join(s.dir, "global-ignore"))
            with open(os.path.join(s.dir, "global-ignore"), "w") as f:
                f.write("*.scratch\neditor-backups/\n")
        if tv:
            ts = []
        files = {"a/vendor/dep.txt": "dep 1\n", "a/vendor/old.txt": "old\n", "a/NOTES.md": "notes 1\n", "a/vendor/shared/s.txt": "s 1\n"}
        r = sc.Repo(s, "r", ts, commands={t["path"]: {"build": "x"} for t in ts}, files=files)
        if tv == "targets-omitted":
            r.cfg.pop("targets", None)
            r.write_cfg()
            r.commit("configuration without a targets key")
        v = []
        evals = 0
        first = r.head()
        if r.mr("checkpoint", "update").code != 0:
            raise common.EngineError("checkpoint update failed")
        r.write("a/vendor/dep.txt", "dep 2\n")
        os.unlink(r.path("a/vendor/old.txt"))
        r.write("a/vendor/new.txt", "new\n")
        r.write("a/NOTES.md", "notes 2\n")
        r.write("a/vendor/shared/s.txt", "s 2\n")
        if gx:
            r.write("a/vendor/notes.scratch", "scratch\n")
            r.write("c/editor-backups/f.txt~", "backup\n")
            r.write("top.scratch", "scratch\n")
        want = sorted(["a/NOTES.md", "a/vendor/dep.txt", "a/vendor/new.txt", "a/vendor/old.txt", "a/vendor/shared/s.txt"], key=lambda x: x.encode())
        if variant == "committed":
            r.commit("edits")
            want_range = sorted(want)
            modes = [(["--changes", "-b", first, "-e", r.head()], want_range), (["--changes"], want_range), (["--all"], want_range)]
        else:
            modes = [(["--changes"], want), (["--all"], want), (["--changes", "--change-targets"], want), (["--changes", "--target-groups"], want)]
        if tv:
            variant = variant + "/" + tv
        if gx:
            variant = variant + "/global-excludes"
        for args, w in modes:
            doc = r.mr("analyze", *args).json()
            evals += 1
            got = None if doc is None else [c["path"] for c in doc.get("changes") or []]
            if got != w:
                v.append(("ignored-path-not-listed", "[%s] analyze %s lists %s, expected %s (a/vendor and a/NOTES.md are `ignores` entries of target a)" % (variant, " ".join(a for a in args if len(a) < 20), got, w)))
        return {"violations": [{"sig": sig, "detail": d, "rank": 65, "case": {"ign_case": variant}} for sig, d in v],
                "evals": evals, "obs": None, "nontrivial": 1}
    except common.EngineError as e:
        return {"engine_error": "%s (ignored paths, %s)" % (e, variant)}
    except Exception:
        return {"engine_error": "ignored paths %s: %s" % (variant, traceback.format_exc()[-1200:])}
    finally:
        s.cleanup()


def dir_becomes_file_task(variant):
    """A tracked file below a subdirectory is deleted and recorded as pending (absent); later the
    directory itself (or its parent) is replaced by a regular file of the same name. The deleted path is
    still absent, so it still equals what was recorded and is not a change; the new file is."""
    s = sc.Scratch("d2f")
    try:
        real = Real(s)
        r = real.r
        r.write("a/sub/deep/f.txt", "tracked\n")
        r.commit("nested file")
        v = []
        if r.mr("checkpoint", "update").code != 0:
            raise common.EngineError("checkpoint update failed")
        os.unlink(r.path("a/sub/deep/f.txt"))
        if r.mr("checkpoint", "update", "-p").code != 0:
            raise common.EngineError("update -p failed")
        import shutil as _sh
        which = "a/sub/deep" if variant == "parent" else "a/sub"
        _sh.rmtree(r.path(which))
        r.write(which, "now a plain file\n")
        doc = r.mr("analyze", "--changes").json()
        got = None if doc is None else [c["path"] for c in doc.get("changes") or []]
        if got != [which]:
            v.append(("change-set-wrong", "a/sub/deep/f.txt deleted and recorded as pending, then %s replaced by a regular file: reported %s, expected %s" % (which, got, [which])))
        t = None if doc is None else doc.get("targets")
        return {"violations": [{"sig": sig, "detail": d, "rank": 67, "case": {"d2f_case": variant}} for sig, d in v],
                "evals": 1, "obs": None, "nontrivial": 1}
    except common.EngineError as e:
        return {"engine_error": "%s (directory becomes file, %s)" % (e, variant)}
    except Exception:
        return {"engine_error": "directory becomes file %s: %s" % (variant, traceback.format_exc()[-1200:])}
    finally:
        s.cleanup()


def empty_file_task(s0):
    """Zero-length files are files: one path a/e.txt whose committed state s0, state s1 at
    `checkpoint update -p` and state s2 at the analysis each range over {absent, empty, one line}
    (all 9 (s1, s2) pairs per s0). The path is a change iff s2 differs from the commit and from what
    was recorded; an empty file and a missing file are different states."""
    STATES = [None, "", "one line\n"]
    names = {None: "absent", "": "empty", "one line\n": "one-line"}
    s = sc.Scratch("emp")
    try:
        real = Real(s)
        r = real.r
        p = "a/e.txt"
        if s0 is not None:
            r.write(p, s0)
            r.commit("e.txt %s" % names[s0])
        if r.mr("checkpoint", "update").code != 0:
            raise common.EngineError("checkpoint update failed")
        v = []
        evals = 0

        def set_wt(c):
            fp = r.path(p)
            if c is None:
                if os.path.isfile(fp):
                    os.unlink(fp)
            else:
                r.write(p, c)
        for s1 in STATES:
            for s2 in STATES:
                set_wt(s1)
                if r.mr("checkpoint", "update", "-p").code != 0:
                    raise common.EngineError("update -p failed")
                set_wt(s2)
                doc = r.mr("analyze", "--changes").json()
                got = None if doc is None else [c["path"] for c in doc.get("changes") or []]
                want = [p] if (s2 != s0 and s2 != s1) else []
                evals += 1
                label = "a/e.txt committed %s, %s at update -p, %s at the analysis" % (names[s0], names[s1], names[s2])
                if got != want:
                    v.append(("change-set-wrong", "%s: reported %s, expected %s" % (label, got, want)))
                t = None if doc is None else doc.get("targets")
                if t != (["a"] if want else []):
                    v.append(("edit-not-reflagged" if want else "targets-after-pending-update", "%s: targets %s, expected %s" % (label, t, ["a"] if want else [])))
        return {"violations": [{"sig": sig, "detail": d, "rank": 66, "case": {"emp_case": names[s0]}} for sig, d in v],
                "evals": evals, "obs": None, "nontrivial": evals}
    except common.EngineError as e:
        return {"engine_error": "%s (empty file, %s)" % (e, s0)}
    except Exception:
        return {"engine_error": "empty file %r: %s" % (s0, traceback.format_exc()[-1200:])}
    finally:
        s.cleanup()


def outdir_sibling_task(variant):
    """A target whose name merely BEGINS with the name of the output directory (`monorail-outpost` next to
    the default `monorail-out`; `outer` next to a configured `out`) is a target like any other: its dirty
    files are pending at `update -p`, nothing is changed afterwards, a later edit re-flags it."""
    s = sc.Scratch("osib")
    try:
        sib, od = ("monorail-outpost", None) if variant == "default" else ("outer", "out")
        ts = [{"path": "app"}, {"path": sib, "uses": ["app/api"]}]
        r = sc.Repo(s, "r", ts, commands={t["path"]: {"build": "x"} for t in ts}, cfg_extra={"out_dir": od} if od else None,
                    files={".gitignore": "%s\n" % (od or "monorail-out")})
        v = []
        evals = 0
        if r.mr("checkpoint", "update").code != 0:
            raise common.EngineError("checkpoint update failed")
        r.write(sib + "/f.txt", "modified\n")
        r.write(sib + "/new.txt", "untracked\n")
        r.write("app/new.txt", "untracked\n")

        def targets():
            d = r.mr("analyze").json()
            return None if d is None else d.get("targets")
        if targets() != ["app", sib]:
            v.append(("edit-flags-wrong-targets", "[%s] before the update analyze reports %s" % (variant, targets())))
        if r.mr("checkpoint", "update", "-p").code != 0:
            v.append(("update-failed", "[%s] update -p failed" % variant))
        t = targets()
        evals += 2
        if t != []:
            v.append(("targets-after-pending-update", "[%s] analyze right after update -p reports %s (target %s only shares a name prefix with the output directory)" % (variant, t, sib)))
        r.clear_traces()
        res = r.mr("run", "-c", "build", env=r.trace_env())
        if res.code != 0 or r.traces():
            v.append(("run-executes-after-pending-update", "[%s] run after update -p started %d executables" % (variant, len(r.traces()))))
        r.write(sib + "/f.txt", "modified again\n")
        t = targets()
        evals += 2
        if t != [sib]:
            v.append(("edit-not-reflagged", "[%s] editing %s/f.txt after update -p: analyze reports %s" % (variant, sib, t)))
        return {"violations": [{"sig": sig, "detail": d, "rank": 66, "case": {"osib_case": variant}} for sig, d in v],
                "evals": evals, "obs": None, "nontrivial": 1}
    except common.EngineError as e:
        return {"engine_error": "%s (out_dir sibling, %s)" % (e, variant)}
    except Exception:
        return {"engine_error": "out_dir sibling %s: %s" % (variant, traceback.format_exc()[-1200:])}
    finally:
        s.cleanup()


def outdir_prefix_changes_task(variant):
    """C02 for paths whose names merely BEGIN with the name of the output directory (`monorail-out.md`,
    `monorail-outline/plan.txt` next to the default `monorail-out`; `output.txt`, `outer/lib.txt` next to a
    configured `out`; `.mrc` next to `.mr`): they are paths like any other and are listed when they change."""
    s = sc.Scratch("oprefix")
    try:
        od, sibs = {"default": (None, ["monorail-out.md", "monorail-outline/plan.txt", "monorail-outline/old.txt"]),
                    "custom": ("out", ["output.txt", "outer/lib.txt", "outer/old.txt"]),
                    "dot": (".mr", [".mrc", ".mr-notes/x.txt", ".mr-notes/old.txt"])}[variant.split("/")[0]]
        ts = [{"path": "app"}]
        files = {p_: "one\n" for p_ in sibs}
        files[".gitignore"] = "/%s/\n" % (od or "monorail-out")
        r = sc.Repo(s, "r", ts, commands={"app": {"build": "x"}}, cfg_extra={"out_dir": od} if od else None, files=files)
        v = []
        evals = 0
        first = r.head()
        if r.mr("checkpoint", "update").code != 0:
            raise common.EngineError("checkpoint update failed")
        r.write(sibs[0], "two\n")
        r.write(sibs[1].rsplit("/", 1)[0] + "/new.txt" if "/" in sibs[1] else sibs[1] + ".new", "untracked\n")
        os.unlink(r.path(sibs[2]))
        r.write("app/new.txt", "untracked\n")
        newp = sibs[1].rsplit("/", 1)[0] + "/new.txt"
        want = sorted([sibs[0], newp, sibs[2], "app/new.txt"], key=lambda x: x.encode())
        if variant.endswith("committed"):
            r.commit("edits")
            modes = [(["--changes", "-b", first, "-e", r.head()], want), (["--changes"], want)]
        else:
            modes = [(["--changes"], want), (["--all"], want)]
        for args, w in modes:
            doc = r.mr("analyze", *args).json()
            evals += 1
            got = None if doc is None else [c["path"] for c in doc.get("changes") or []]
            if got != w:
                v.append(("change-set-wrong", "[%s] out_dir %s: analyze %s lists %s, expected %s" % (variant, od or "monorail-out (default)", " ".join(a for a in args if len(a) < 20), got, w)))
        return {"violations": [{"sig": sig, "detail": d, "rank": 64, "case": {"oprefix_case": variant}} for sig, d in v],
                "evals": evals, "obs": None, "nontrivial": 1}
    except common.EngineError as e:
        return {"engine_error": "%s (out_dir prefix paths, %s)" % (e, variant)}
    except Exception:
        return {"engine_error": "out_dir prefix paths %s: %s" % (variant, traceback.format_exc()[-1200:])}
    finally:
        s.cleanup()


def root_file_task(variant):
    """`uses` entries that are files directly in the repository root (VERSION, a lock file, a toolchain file): after
    `update -p` an edit, the deletion and the creation of such a file each re-flag exactly the targets that use it."""
    s = sc.Scratch("rootf")
    try:
        ts = [{"path": "a", "uses": ["TOOLCHAIN"]}, {"path": "b", "uses": ["VERSION"]}, {"path": "c", "uses": ["shared/lib.txt"]}]
        r = sc.Repo(s, "r", ts, commands={t["path"]: {"build": "x"} for t in ts}, files={"VERSION": "1.0\n", "shared/lib.txt": "lib 1\n", "README.md": "readme\n"})
        v = []
        evals = 0

        def targets():
            d = r.mr("analyze").json()
            return None if d is None else d.get("targets")

        def ran():
            r.clear_traces()
            res = r.mr("run", "-c", "build", env=r.trace_env())
            return sorted({r.target_pair(x)[0] for x in r.traces()}) if res.json() is not None else None
        if variant == "dirty-at-update":
            r.write("VERSION", "1.1\n")
        steps = [("edit VERSION", lambda: r.write("VERSION", "2.0\n"), ["b"]),
                 ("delete VERSION", lambda: os.unlink(r.path("VERSION")), ["b"]),
                 ("create TOOLCHAIN", lambda: r.write("TOOLCHAIN", "stable\n"), ["a"]),
                 ("edit README.md (used by nobody)", lambda: r.write("README.md", "readme 2\n"), []),
                 ("edit shared/lib.txt", lambda: r.write("shared/lib.txt", "lib 2\n"), ["c"])]
        for label, act, want in steps:
            if r.mr("checkpoint", "update", "-p").code != 0:
                raise common.EngineError("update -p failed")
            t0 = targets()
            evals += 1
            if t0 != []:
                v.append(("targets-after-pending-update", "[%s] before '%s': analyze right after update -p reports %s" % (variant, label, t0)))
            act()
            got, started = targets(), ran()
            evals += 2
            if got != want:
                v.append(("edit-not-reflagged" if got is not None and set(got) < set(want) else "edit-flags-wrong-targets", "[%s] after update -p then %s: analyze reports %s, expected %s" % (variant, label, got, want)))
            if started != want:
                v.append(("edit-not-reflagged" if started is not None and set(started) < set(want) else "edit-flags-wrong-targets", "[%s] after update -p then %s: run started %s, expected %s" % (variant, label, started, want)))
        return {"violations": [{"sig": sig, "detail": d, "rank": 63, "case": {"rootf_case": variant}} for sig, d in v[:6]],
                "evals": evals, "obs": None, "nontrivial": 1}
    except common.EngineError as e:
        return {"engine_error": "%s (root-level uses, %s)" % (e, variant)}
    except Exception:
        return {"engine_error": "root-level uses %s: %s" % (variant, traceback.format_exc()[-1200:])}
    finally:
        s.cleanup()


def show_during_run_task(variant):
    """`checkpoint show` only reads: while a `run` of the same repository is in progress (and holds the lock) it
    returns exactly what the last update returned - asked from another shell, or by an executable of the run itself."""
    import ctl as ctlmod
    s = sc.Scratch("showrun")
    try:
        ts = [{"path": "a"}, {"path": "b"}]
        r = sc.Repo(s, "r", ts, commands={t["path"]: {"build": "x"} for t in ts})
        r.write("a/dirty.txt", "dirty\n")
        up = r.mr("checkpoint", "update", "-p")
        want = (up.json() or {}).get("checkpoint")
        if up.code != 0 or want is None:
            raise common.EngineError("update -p failed")
        v = []
        evals = 0
        c = ctlmod.Controller(s)
        try:
            env = s.env(c.env())
            holder = c.spawn("run", [common.MONORAIL, "run", "-c", "build", "-t", "a", "b", "--deps"], r.dir, env)
            c.wait(lambda: len(c.waiting()) >= 2 or holder.done(), 15)
            mine = list(c.waiting())
            if len(mine) < 2:
                raise common.EngineError("the run did not start its executables (exit %s %s)" % (holder.code, holder.err[:200]))
            if variant == "other-shell":
                for i in range(2):
                    sh = r.mr("checkpoint", "show")
                    evals += 1
                    if sh.code != 0 or (sh.json() or {}).get("checkpoint") != want:
                        v.append(("show-differs-from-last-update", "checkpoint show while a run of the same repository is in progress: exit %s %s, the last update returned %s" % (sh.code, (sh.err or sh.out)[:200], want)))
                        break
            else:
                # an executable of the run asks (with the environment monorail gave it)
                outf = os.path.join(s.dir, "show.json")
                argv = [common.MONORAIL, "-f", os.path.join(r.dir, "Monorail.json"), "checkpoint", "show"]
                c.send(mine[0], ["spawn %s %s" % (outf, "\0".join(argv).encode().hex())])
                if not c.wait_acks(mine[0], 30) or not os.path.exists(outf):
                    raise common.EngineError("nested invocation did not return")
                res = json.load(open(outf))
                sh = sc.Result(res["code"], bytes.fromhex(res["out"]), bytes.fromhex(res["err"]))
                evals += 1
                if sh.code != 0 or (sh.json() or {}).get("checkpoint") != want:
                    v.append(("show-differs-from-last-update", "checkpoint show asked by an executable of a run in progress: exit %s %s, the last update returned %s" % (sh.code, (sh.err or sh.out)[:200], want)))
            for ch in mine:
                c.release(ch, 0)
            c.wait(lambda: holder.done(), 20)
            if not holder.done():
                c.kill(holder, group=True)
                c.wait(lambda: holder.done(), 5)
            elif holder.code != 0 and not v:
                v.append(("run-failed", "the run ended with exit %s %s" % (holder.code, holder.err[:200])))
        finally:
            c.close()
        return {"violations": [{"sig": sig, "detail": d, "rank": 62, "case": {"showrun_case": variant}} for sig, d in v],
                "evals": evals, "obs": None, "nontrivial": 1}
    except common.EngineError as e:
        return {"engine_error": "%s (show during run, %s)" % (e, variant)}
    except Exception:
        return {"engine_error": "show during run %s: %s" % (variant, traceback.format_exc()[-1200:])}
    finally:
        s.cleanup()


def unborn_task(kind):
    """HEAD resolves to no commit (a repository without commits, or an orphan branch after a real
    checkpoint): an update without --id has nothing to record, so it must fail and leave the store
    as it was."""
    s = sc.Scratch("unborn")
    try:
        v = []
        evals = 0
        if kind == "no-commits":
            r = sc.Repo(s, "r", TARGETS, commands={"a": {"build": "x"}, "b": {"build": "x"}}, init_git=False)
            r.git("init", "-q", "-b", "main")
            before = None
        else:
            real = Real(s)
            r = real.r
            up = r.mr("checkpoint", "update")
            before = (up.json() or {}).get("checkpoint")
            if up.code != 0 or before is None:
                raise common.EngineError("checkpoint update failed on a normal repository")
            r.git("checkout", "-q", "--orphan", "fresh")
        for extra in ([], ["-p"]):
            res = r.mr("checkpoint", "update", *extra)
            evals += 1
            if res.code == 0:
                v.append(("update-recorded-wrong-id", "[%s] checkpoint update %s while HEAD resolves to no commit exited 0 and printed %s" % (kind, extra, res.out[:200])))
            sh = r.mr("checkpoint", "show")
            got = (sh.json() or {}).get("checkpoint") if sh.code == 0 else None
            if got != before:
                v.append(("show-differs-from-last-update", "[%s] after a checkpoint update %s that cannot resolve HEAD, show prints %s; the last successful update printed %s" % (kind, extra, got, before)))
        if before is None:
            doc = r.mr("analyze").json()
            evals += 1
            if doc is None or doc.get("checkpointed") is not False or doc.get("targets") != ALL_TARGETS:
                v.append(("no-checkpoint-not-everything-changed", "[%s] analyze printed %s" % (kind, doc)))
        return {"violations": [{"sig": sig, "detail": d, "rank": 60, "case": {"unborn_case": kind}} for sig, d in v],
                "evals": evals, "obs": None, "nontrivial": 1}
    except common.EngineError as e:
        return {"engine_error": "%s (unborn HEAD, %s)" % (e, kind)}
    except Exception:
        return {"engine_error": "unborn HEAD %s: %s" % (kind, traceback.format_exc()[-1200:])}
    finally:
        s.cleanup()


def inv_c05(model, real, tier):
    v = []
    r = real.r
    evals = 0
    obs = None
    variants = [[]]
    if model.cp is not None:
        # the same comparison with an explicit interval on both commands
        variants += [["-e", real.commit_ids[0]], ["-b", real.commit_ids[0]], ["-b", real.commit_ids[0], "-e", real.commit_ids[-1]]]
    for extra in variants:
        a = r.mr("analyze", "--target-groups", *extra).json()
        r.clear_traces()
        res = r.mr("run", "-c", "build", *extra, env=r.trace_env())
        doc = res.json()
        evals += 2
        if a is None or doc is None:
            v.append(("run-or-analyze-failed", "%s: analyze %s run exit %s %s" % (extra, a, res.code, res.err[:200])))
            continue
        groups = [sorted(g) for g in doc["results"][0]["target_groups"]] if doc["results"] else []
        agroups = [sorted(g) for g in a["target_groups"]]
        if groups != agroups:
            v.append(("run-differs-from-analyze", "%s: run groups %s vs analyze --target-groups %s (state checkpoint=%s)" % (extra, groups, agroups, model.cp is not None)))
        started = sorted(r.target_pair(t)[0] for t in r.traces())
        if started != sorted(a["targets"]):
            v.append(("started-set-differs", "%s: started %s vs analyze targets %s" % (extra, started, a["targets"])))
        if not extra:
            obs = json.dumps(groups)
    return v, evals, obs


def state_task(task):
    prop, tier, ops = task[0], task[1], task[2]
    out_dir = task[3] if len(task) > 3 else None
    s = sc.Scratch("repo")
    try:
        model = ModelState()
        real = Real(s, out_dir)
        for op in ops:
            model = model.apply(op)
            real.apply(op)
        bad = conformance(model, real)
        if bad:
            return {"engine_error": "model/implementation drift after %s: %s" % (ops, bad)}
        if prop == "C02":
            v, evals, obs = inv_c02(model, real, tier)
        elif prop == "C19":
            v, evals, obs = inv_c19(model, real, tier, ops)
        elif prop == "C07":
            v, evals, obs = inv_c07(model, real, ops, tier)
        else:
            v, evals, obs = inv_c05(model, real, tier)
        if getattr(real, "elsewhere", None) and prop == "C19":
            f = os.path.join(real.elsewhere, "monorail-out", "tracking", "unrelated.txt")
            if not os.path.isfile(f):
                v.append(("unrelated-directory-modified", "invoked with -f from another directory: that directory's own monorail-out was modified after %s" % ops))
        return {"violations": [{"sig": sig, "detail": d, "rank": len(ops), "case": {"ops": ops, "out_dir": out_dir}} for sig, d in v],
                "evals": evals, "obs": obs, "nontrivial": 1 if (model.cp is not None and model.changed_vs_head()) else 0}
    except common.EngineError as e:
        return {"engine_error": "%s after %s" % (e, ops)}
    except Exception:
        return {"engine_error": "after %s: %s" % (ops, traceback.format_exc()[-1200:])}
    finally:
        s.cleanup()


RULES = {
    "C02": "plus an empty-file family (one path whose committed state, state at `update -p` and state at the analysis each range over absent / zero-length / one line: 27 triples; a zero-length file and a missing file are different states); plus changed paths covered by a target's ignores entries (modified, deleted, untracked, named exactly), in every output mode, uncommitted and as a commit range; plus wholly untracked directories (5 places: inside a target, nested three deep, name with a space / non-ASCII, outside every target) whose files must be listed one by one; plus 13 sequences with surroundings outside the model (records of earlier successful / failed runs on disk, a log tail listener attached, runs without -t and analyses after a pending path changed again); plus an odd-file-name family (18 names: leading/trailing spaces, tab, newline, quote, backslash, non-ASCII, 200 characters, leading dash, glob characters), each untracked and tracked-modified; plus a many-pending-paths family (1..40 and 1000 paths in quick, up to 2500 in thorough, of mixed sizes, untracked / staged / modified / deleted at once); plus the size family of C07 judged on the reported change list (a pending file edited beyond a buffer/read boundary must be listed, restored content must be filtered); explicit-state BFS over operation sequences {write(p,c), delete(p), mv, git mv, add -A, commit, checkpoint update [-p] [--id k], checkpoint delete, out delete --all} on paths {a/f.txt, 'b/n e-acute.txt', b/m.txt}; state = (commits, index, worktree, checkpoint) with commit ids canonicalised to indices; each new state is materialised in a real repository (real git, real monorail) and, when a checkpoint exists, `analyze --changes` for the default range, every ordered pair of commits as --begin/--end, and every commit as --begin alone (.. working tree) and as --end alone (checkpoint ..) must equal the statement's set, also after every file was rewritten with the bytes it already had and a new mtime (content differs from base, plus untracked, minus pending-checksum matches), verbatim and sorted",
    "C07": "plus an empty-file family (one path whose committed state, state at `update -p` and state at the analysis each range over absent / zero-length / one line: 27 triples; a zero-length file and a missing file are different states); plus `uses` entries that are files in the repository root (edited, deleted, created after update -p); plus targets whose names only begin with the name of the output directory; plus analysis under a file descriptor limit of 64 / 256 with 1000 pending paths; plus wholly untracked directories (5 places) pending at update -p: a new file, a changed file and a new file in a subdirectory must each re-flag; plus 13 sequences with surroundings outside the model (records of earlier successful / failed runs on disk, a log tail listener attached, runs without -t and analyses after a pending path changed again); plus an odd-file-name family (18 names: leading/trailing spaces, tab, newline, quote, backslash, non-ASCII, 200 characters, leading dash, glob characters), each untracked and tracked-modified; plus a many-pending-paths family (1..40 and 1000 paths in quick, up to 2500 in thorough, of mixed sizes, untracked / staged / modified / deleted at once); plus the update-pair family of C19 judged on `analyze` after the second update -p; plus a size family: a pending file (untracked / modified / staged) of each size around the checksum buffer and read boundaries (65535..65537, 200000, 2 MiB+1; thorough more) must be clean after update -p and re-flagged by a one-byte edit at each boundary offset, an append and a truncation; same BFS; in every state reached by `checkpoint update -p`: analyze reports no targets and run starts nothing; then from that state every single later edit (fresh content for each path, new files, deletion of committed files; thorough: every pair) must re-flag exactly the targets of the edited paths, and a second update -p must clear them",
    "C19": "plus `checkpoint show` while a run of the same repository is in progress (from another shell, from an executable of the run); plus HEAD resolving to no commit (repository without commits; orphan branch after a real checkpoint): update must fail and leave the store as it was; plus 13 sequences with surroundings outside the model (records of earlier successful / failed runs on disk, a log tail listener attached, runs without -t and analyses after a pending path changed again); plus a many-pending-paths family (1..40 and 1000 paths in quick, up to 2500 in thorough, of mixed sizes, untracked / staged / modified / deleted at once); plus an update-pair family: worktree set to pending configuration S1 (each of a/f.txt, b/m.txt, a/g.txt absent or with one of two contents), `update -p`, worktree set to S2, second update (-p or plain) for every pair (S1,S2) (quick: at most two pending paths each): show must equal what the second update printed; same BFS; from every state (quick: every state whose last operation touched the store) a suffix probe update, update -p, delete: show follows each update and afterwards no checkpoint exists; in every state `checkpoint show` must equal what the last successful update printed (or fail when deleted / never set); updates must record HEAD or the given --id; without a checkpoint analyze reports checkpointed=false with every target and run covers every target",
    "C05": "plus 13 sequences with surroundings outside the model (records of earlier successful / failed runs on disk, a log tail listener attached, runs without -t and analyses after a pending path changed again); same BFS (part B of C05): in every state `analyze --target-groups` then `run -c build` in trace mode must agree on groups and started targets",
}


def bfs(prop, tier, depth, wall_cap=None):
    alphabet = ALPHABETS["thorough" if tier == "thorough" else "quick"]
    init = ModelState()
    seen = {init.key(): []}
    frontier = [(init, [])]
    agg = {"states": 0, "transitions": 0, "evaluations": 0, "distinct_nontrivial": 0, "violations": [], "samples": [],
           "traces_validated_against_impl": 0}
    observations = set()
    t0 = time.time()
    workers = min(16, os.cpu_count() or 4)
    ctx = multiprocessing.get_context("fork")
    completed_depth = -1
    if True:
        level = 0
        todo = [(prop, tier, [])]
        while True:
            results = common.pmap(state_task, todo, workers)
            errs = [r["engine_error"] for r in results if "engine_error" in r]
            if errs:
                raise common.EngineError("; ".join(errs[:2]))
            for r in results:
                agg["states"] += 1
                agg["traces_validated_against_impl"] += 1
                agg["evaluations"] += r["evals"]
                agg["distinct_nontrivial"] += r["nontrivial"]
                agg["violations"].extend(r["violations"])
                if r["obs"] is not None:
                    observations.add(json.dumps(r["obs"]))
            completed_depth = level
            if level >= depth:
                break
            if wall_cap and time.time() - t0 > wall_cap:
                agg["capped"] = "wall cap %ss hit after completing depth %d" % (wall_cap, level)
                break
            nxt = []
            for m, ops in frontier:
                for op in m.enabled(alphabet):
                    agg["transitions"] += 1
                    m2 = m.apply(op)
                    k = m2.key()
                    if k not in seen:
                        seen[k] = ops + [op]
                        nxt.append((m2, ops + [op]))
            frontier = nxt
            todo = [(prop, tier, ops) for _, ops in frontier]
            level += 1
            if len(agg["samples"]) < 4 and frontier:
                agg["samples"].append({"ops": frontier[len(frontier) // 2][1]})
    if prop in ("C07", "C02"):
        sizes = SIZES_T if tier == "thorough" else SIZES_Q
        tasks = [(sz, m, prop) for sz in sizes for m in ("untracked", "modified", "staged")]
        for r in common.pmap(size_task, tasks):
            if "engine_error" in r:
                raise common.EngineError(r["engine_error"])
            agg["evaluations"] += r["evals"]
            agg["distinct_nontrivial"] += r["nontrivial"]
            agg["violations"].extend(r["violations"])
        agg["size_cases"] = len(tasks)
    if prop in ("C19", "C07"):
        cfgs = swap_configs()
        seconds = [["CPUP"]] if prop == "C07" else [["CPUP"], ["CPU"]]
        tasks = [(a, b, sec, prop) for a in cfgs for b in cfgs for sec in seconds]
        if tier == "quick":
            tasks = [t for t in tasks if sum(x is not None for x in t[0]) <= 2 and sum(x is not None for x in t[1]) <= 2]
        for r in common.pmap(swap_task, tasks, chunksize=4):
            if "engine_error" in r:
                raise common.EngineError(r["engine_error"])
            agg["evaluations"] += r["evals"]
            agg["distinct_nontrivial"] += r["nontrivial"]
            agg["violations"].extend(r["violations"])
        agg["update_pair_cases"] = len(tasks)
    if prop in ("C02", "C07"):
        for r in common.pmap(dir_becomes_file_task, ["parent", "grandparent"]):
            if "engine_error" in r:
                raise common.EngineError(r["engine_error"])
            agg["evaluations"] += r["evals"]
            agg["violations"].extend(r["violations"])
        agg["directory_becomes_file_cases"] = 2
        for r in common.pmap(empty_file_task, [None, "", "one line\n"]):
            if "engine_error" in r:
                raise common.EngineError(r["engine_error"])
            agg["evaluations"] += r["evals"]
            agg["distinct_nontrivial"] += r["nontrivial"]
            agg["violations"].extend(r["violations"])
        agg["empty_file_cases"] = 27
    if prop == "C02":
        for r in common.pmap(ignored_paths_task, ["worktree", "committed", "worktree/no-targets", "committed/no-targets", "worktree/targets-omitted", "committed/targets-omitted", "worktree/global-excludes", "committed/global-excludes"]):
            if "engine_error" in r:
                raise common.EngineError(r["engine_error"])
            agg["evaluations"] += r["evals"]
            agg["violations"].extend(r["violations"])
        agg["ignored_path_cases"] = 6
        for r in common.pmap(outdir_prefix_changes_task, [a + b for a in ("default", "custom", "dot") for b in ("", "/committed")]):
            if "engine_error" in r:
                raise common.EngineError(r["engine_error"])
            agg["evaluations"] += r["evals"]
            agg["violations"].extend(r["violations"])
        agg["out_dir_prefix_path_cases"] = 6
    if prop == "C07":
        for r in common.pmap(outdir_sibling_task, ["default", "custom"]):
            if "engine_error" in r:
                raise common.EngineError(r["engine_error"])
            agg["evaluations"] += r["evals"]
            agg["violations"].extend(r["violations"])
        agg["out_dir_sibling_cases"] = 2
        for r in common.pmap(root_file_task, ["clean-at-update", "dirty-at-update"]):
            if "engine_error" in r:
                raise common.EngineError(r["engine_error"])
            agg["evaluations"] += r["evals"]
            agg["violations"].extend(r["violations"])
        agg["root_level_uses_cases"] = 2
    if prop == "C19":
        for r in common.pmap(show_during_run_task, ["other-shell", "child-of-run"]):
            if "engine_error" in r:
                raise common.EngineError(r["engine_error"])
            agg["evaluations"] += r["evals"]
            agg["violations"].extend(r["violations"])
        agg["show_during_run_cases"] = 2
        for r in common.pmap(unborn_task, ["no-commits", "orphan-branch"]):
            if "engine_error" in r:
                raise common.EngineError(r["engine_error"])
            agg["evaluations"] += r["evals"]
            agg["violations"].extend(r["violations"])
        agg["unborn_head_cases"] = 2
    if prop in ("C07", "C19", "C02", "C05"):
        # the same invariants under a custom, nested output directory whose name contains a space
        seqs = [[], [["CPU"]], [["CPUP"]], [["W", "b/m.txt", "1"], ["CPUP"]], [["CPU"], ["CPD"]], [["CPUP"], ["OUTD"]],
                [["W", "a/f.txt", "2"], ["CPU"], ["OUTD"], ["CPUP"]], [["W", "b/n \u00e9.txt", "1"], ["ADD"], ["COMMIT"], ["CPUI", 0]],
                [["D", "a/f.txt"], ["CPUP"], ["CPD"], ["CPU"]], [["GMV", "a/f.txt", "b/m.txt"], ["CPU"], ["W", "b/m.txt", "2"]]]
        for r in common.pmap(state_task, [(prop, tier, ops, "var/mr out") for ops in seqs]):
            if "engine_error" in r:
                raise common.EngineError(r["engine_error"])
            agg["evaluations"] += r["evals"]
            agg["violations"].extend(r["violations"])
        agg["custom_out_dir_cases"] = len(seqs)
        # the same sequences with monorail invoked as `-f <abs path>` from a different directory
        for r in common.pmap(state_task, [(prop, tier, ops, "@foreign-cwd") for ops in seqs]):
            if "engine_error" in r:
                raise common.EngineError(r["engine_error"])
            agg["evaluations"] += r["evals"]
            agg["violations"].extend(r["violations"])
        agg["foreign_cwd_cases"] = len(seqs)
        # the same sequences with the output directory being a symbolic link to a directory elsewhere
        for r in common.pmap(state_task, [(prop, tier, ops, "@symlink-out") for ops in seqs]):
            if "engine_error" in r:
                raise common.EngineError(r["engine_error"])
            agg["evaluations"] += r["evals"]
            agg["violations"].extend(r["violations"])
        agg["symlinked_out_dir_cases"] = len(seqs)
        for r in common.pmap(state_task, [(prop, tier, ops, "@absolute-out") for ops in seqs]):
            if "engine_error" in r:
                raise common.EngineError(r["engine_error"])
            agg["evaluations"] += r["evals"]
            agg["violations"].extend(r["violations"])
        agg["absolute_out_dir_cases"] = len(seqs)
        # the same invariants with surroundings the model does not know about: records of earlier
        # successful / failed runs on disk, a listener attached
        sur = [[["RUN"]], [["RUN"], ["CPU"]], [["CPUP"], ["RUNF"], ["W", "a/f.txt", "2"]], [["RUN"], ["CPU"], ["RUNF"], ["CPD"]],
               [["LSN"], ["W", "b/m.txt", "1"], ["CPUP"], ["RUN"]], [["CPU"], ["RUNF"], ["OUTD"], ["CPUP"]],
               [["RUNF"], ["W", "a/f.txt", "2"], ["CPUP"]], [["W", "b/m.txt", "2"], ["RUN"], ["CPUP"], ["RUNF"]],
               [["LSN"], ["RUNF"], ["CPU"], ["W", "a/f.txt", "1"]],
               # a pending path changes again and whatever is changed is run (no -t) or analysed: neither touches the checkpoint
               [["W", "b/m.txt", "1"], ["CPUP"], ["W", "b/m.txt", "2"], ["RUNC"]],
               [["W", "a/f.txt", "2"], ["CPUP"], ["D", "a/f.txt"], ["RUNC"], ["ANA"]],
               [["W", "b/m.txt", "1"], ["CPUP"], ["W", "b/m.txt", "2"], ["RUNC"], ["W", "b/m.txt", "1"]],
               [["W", "b/m.txt", "1"], ["W", "a/f.txt", "2"], ["CPUP"], ["W", "a/f.txt", "1"], ["ANA"], ["RUNC"], ["RUNC"]]]
        for r in common.pmap(state_task, [(prop, tier, ops) for ops in sur]):
            if "engine_error" in r:
                raise common.EngineError(r["engine_error"])
            agg["evaluations"] += r["evals"]
            agg["violations"].extend(r["violations"])
        agg["surroundings_cases"] = len(sur)
        # a checkpoint recorded with an empty id (`--id ""`): no position, the tracked part follows HEAD
        emp = [[["CPUE"]], [["W", "a/f.txt", "2"], ["CPUE"]], [["W", "b/m.txt", "1"], ["CPUEP"]], [["CPUEP"], ["W", "a/f.txt", "2"]],
               [["W", "a/f.txt", "2"], ["ADD"], ["COMMIT"], ["CPUE"], ["W", "b/m.txt", "1"]], [["W", "b/m.txt", "1"], ["CPUEP"], ["ADD"], ["COMMIT"]],
               # the same git binary named explicitly with --git-path
               [["W", "b/m.txt", "1"], ["CPUP", "git-path"]], [["CPU", "git-path"], ["W", "a/f.txt", "2"], ["CPUP", "git-path"], ["W", "a/f.txt", "1"]]]
        for r in common.pmap(state_task, [(prop, tier, ops) for ops in emp]):
            if "engine_error" in r:
                raise common.EngineError(r["engine_error"])
            agg["evaluations"] += r["evals"]
            agg["violations"].extend(r["violations"])
        agg["empty_id_cases"] = len(emp)
    if prop in ("C07", "C19", "C02"):
        # (about 900 pending paths make the stored checkpoint document larger than 64 KiB)
        counts = [1, 15, 16, 17, 40, 1000] if tier == "quick" else [1, 2, 7, 15, 16, 17, 31, 32, 33, 40, 64, 65, 200, 600, 1000, 2500]
        if prop == "C02":
            counts += [99, 101, 120, 151, 333]   # list order matters here: more than two internal batches of 50
        tasks = [(n, prop) for n in counts]
        for r in common.pmap(many_task, tasks):
            if "engine_error" in r:
                raise common.EngineError(r["engine_error"])
            agg["evaluations"] += r["evals"]
            agg["distinct_nontrivial"] += r["nontrivial"]
            agg["violations"].extend(r["violations"])
        agg["many_pending_cases"] = len(tasks)
    if prop in ("C02", "C07"):
        tasks = [(i, prop) for i in range(len(ODD_NAMES))]
        for r in common.pmap(name_task, tasks):
            if "engine_error" in r:
                raise common.EngineError(r["engine_error"])
            agg["evaluations"] += r["evals"]
            agg["distinct_nontrivial"] += r["nontrivial"]
            agg["violations"].extend(r["violations"])
        agg["odd_name_cases"] = len(tasks)
        tasks = [(i, prop) for i in range(len(UNTRACKED_DIRS))]
        for r in common.pmap(untracked_dir_task, tasks):
            if "engine_error" in r:
                raise common.EngineError(r["engine_error"])
            agg["evaluations"] += r["evals"]
            agg["distinct_nontrivial"] += r["nontrivial"]
            agg["violations"].extend(r["violations"])
        agg["untracked_directory_cases"] = len(tasks)
    agg["depth_completed"] = completed_depth
    agg["distinct_observations"] = len(observations)
    agg["alphabet"] = {k: v for k, v in alphabet.items()}
    return agg


def run(prop, tier):
    depth = {"C02": 3, "C19": 3, "C07": 3, "C05": 2}[prop] if tier == "quick" else {"C02": 5, "C19": 5, "C07": 4, "C05": 3}[prop]
    agg = bfs(prop, tier, depth, wall_cap=None if tier == "quick" else 240)  # a new level is started only within the cap
    agg["rule"] = RULES[prop] + "; depth = %d operations (complete); non-trivial = states with a checkpoint and at least one pending change" % agg["depth_completed"]
    agg["exhaustive"] = "capped" not in agg
    by = {}
    for v in agg["violations"]:
        by[v["sig"]] = by.get(v["sig"], 0) + 1
    agg["by_sig"] = by
    agg["violation_count"] = len(agg["violations"])
    agg["violations"] = sorted(agg["violations"], key=lambda v: (v["rank"], json.dumps(v["case"])))[:300]
    if not agg["samples"]:
        agg["samples"] = [{"ops": []}]
    assume = ["linear history of at most 3 commits; branches, merges, submodules, symlinks, mode-only changes and nested .gitignore rules are outside the alphabet",
              "states are deduplicated by the model key; every materialised state is checked against the model (worktree, index, commit count) before its invariants are evaluated"]
    return agg, assume


def replay(prop, path):
    body = json.load(open(path))
    if "oprefix_case" in body["case"] or "rootf_case" in body["case"] or "showrun_case" in body["case"]:
        r1 = outdir_prefix_changes_task(body["case"]["oprefix_case"]) if "oprefix_case" in body["case"] else root_file_task(body["case"]["rootf_case"]) if "rootf_case" in body["case"] else show_during_run_task(body["case"]["showrun_case"])
        if r1.get("violations"):
            for v_ in r1["violations"]:
                print("REPLAY property=%s still violates: [%s] %s" % (prop, v_["sig"], v_["detail"][:300]))
            print("VIOLATION property=%s replay=%s" % (prop, path))
            return 1
        print("REPLAY property=%s: case passes on the current tree" % prop)
        return 0
    if "unborn_case" in body["case"] or "ign_case" in body["case"] or "osib_case" in body["case"] or "d2f_case" in body["case"] or "emp_case" in body["case"]:
        cs = body["case"]
        r1 = empty_file_task({"absent": None, "empty": "", "one-line": "one line\n"}[cs["emp_case"]]) if "emp_case" in cs else unborn_task(cs["unborn_case"]) if "unborn_case" in cs else ignored_paths_task(cs["ign_case"]) if "ign_case" in cs else outdir_sibling_task(cs["osib_case"]) if "osib_case" in cs else dir_becomes_file_task(cs["d2f_case"])
        if "engine_error" in r1:
            print("ENGINE:", r1["engine_error"])
            return 2
        for v in r1["violations"]:
            print("REPLAY property=%s still violates: [%s] %s" % (prop, v["sig"], v["detail"][:400]))
        if r1["violations"]:
            print("VIOLATION property=%s replay=%s" % (prop, path))
            return 1
        print("REPLAY property=%s: case passes on the current tree" % prop)
        return 0
    if "many_case" in body["case"] or "name_case" in body["case"] or "udir_case" in body["case"]:
        r1 = many_task(tuple(body["case"]["many_case"])) if "many_case" in body["case"] else name_task(tuple(body["case"]["name_case"])) if "name_case" in body["case"] else untracked_dir_task(tuple(body["case"]["udir_case"]))
        if "engine_error" in r1:
            print("ENGINE:", r1["engine_error"])
            return 2
        if r1["violations"]:
            for v in r1["violations"]:
                print("REPLAY property=%s still violates: [%s] %s" % (prop, v["sig"], v["detail"][:400]))
            print("VIOLATION property=%s replay=%s" % (prop, path))
            return 1
        print("REPLAY property=%s: case passes on the current tree" % prop)
        return 0
    if "swap_case" in body["case"]:
        a, b, sec, pr = body["case"]["swap_case"]
        r1 = swap_task((tuple(a), tuple(b), sec, pr))
        if "engine_error" in r1:
            print("ENGINE:", r1["engine_error"])
            return 2
        if r1["violations"]:
            for v in r1["violations"]:
                print("REPLAY property=%s still violates: [%s] %s" % (prop, v["sig"], v["detail"][:400]))
            print("VIOLATION property=%s replay=%s" % (prop, path))
            return 1
        print("REPLAY property=%s: case passes on the current tree" % prop)
        return 0
    if "size_case" in body["case"]:
        r1 = size_task(tuple(body["case"]["size_case"]))
        if "engine_error" in r1:
            print("ENGINE:", r1["engine_error"])
            return 2
        if r1["violations"]:
            for v in r1["violations"]:
                print("REPLAY property=%s still violates: [%s] %s" % (prop, v["sig"], v["detail"][:400]))
            print("VIOLATION property=%s replay=%s" % (prop, path))
            return 1
        print("REPLAY property=%s: case passes on the current tree" % prop)
        return 0
    ops = body["case"]["ops"]
    od = body["case"].get("out_dir")
    r1 = state_task((prop, "quick", ops, od))
    r2 = state_task((prop, "quick", ops, od))
    if "engine_error" in r1:
        print("ENGINE:", r1["engine_error"])
        return 2
    s1 = sorted(v["sig"] for v in r1["violations"])
    s2 = sorted(v["sig"] for v in r2.get("violations", []))
    if s1 != s2:
        print("ENGINE: two replays disagree: %s vs %s" % (s1, s2))
        return 2
    if r1["violations"]:
        for v in r1["violations"]:
            print("REPLAY property=%s still violates: [%s] %s" % (prop, v["sig"], v["detail"][:400]))
        print("VIOLATION property=%s replay=%s" % (prop, path))
        return 1
    print("REPLAY property=%s: case passes on the current tree" % prop)
    return 0
