"""Scratch repositories, port allocation, monorail invocation. Everything lives under one
per-invocation directory (in /dev/shm when present) that is removed on exit together with every
process group started from here."""
import atexit
import hashlib
import json
import os
import shutil
import signal
import socket
import subprocess
import tempfile
import time

import common

PORT_DIR = "/dev/shm/mrv-ports" if os.path.isdir("/dev/shm") else os.path.join(tempfile.gettempdir(), "mrv-ports")
_ALL = []

BASE_ENV = {
    "PATH": os.environ.get("PATH", "/usr/bin:/bin"),
    "GIT_CONFIG_NOSYSTEM": "1",
    "GIT_AUTHOR_NAME": "v", "GIT_AUTHOR_EMAIL": "v@example.com",
    "GIT_COMMITTER_NAME": "v", "GIT_COMMITTER_EMAIL": "v@example.com",
    "GIT_AUTHOR_DATE": "2024-01-01T00:00:00Z", "GIT_COMMITTER_DATE": "2024-01-01T00:00:00Z",
    "LC_ALL": "C.UTF-8", "TZ": "UTC",
}


def _pid_alive(pid):
    try:
        os.kill(pid, 0)
        return True
    except ProcessLookupError:
        return False
    except PermissionError:
        return True


def alloc_port():
    """A TCP port outside the ephemeral range, reserved through an O_EXCL file and probe-bound."""
    os.makedirs(PORT_DIR, exist_ok=True)
    start = 20000 + (os.getpid() * 37 + int(time.time() * 1000)) % 11000
    for k in range(11000):
        port = 20000 + (start - 20000 + k) % 11000
        path = os.path.join(PORT_DIR, str(port))
        try:
            fd = os.open(path, os.O_CREAT | os.O_EXCL | os.O_WRONLY)
        except FileExistsError:
            try:
                owner = int(open(path).read().strip() or "0")
            except Exception:
                owner = 0
            try:
                age = time.time() - os.path.getmtime(path)
            except OSError:
                age = 0
            # pids wrap quickly here, so a live pid alone does not prove the reservation is current
            if owner and _pid_alive(owner) and age < 3 * 3600:
                continue
            try:
                os.unlink(path)
            except FileNotFoundError:
                pass
            continue
        os.write(fd, str(os.getpid()).encode())
        os.close(fd)
        s = socket.socket()
        try:
            s.bind(("127.0.0.1", port))
        except OSError:
            s.close()
            continue  # keep the reservation file so nobody else tries it either; freed at exit
        s.close()
        return port
    raise common.EngineError("no free port")


def port_listening(port):
    """True when some socket is in LISTEN state on this TCP port. Read from /proc: probing by binding
    would itself occupy the port for an instant and make the process under test fail to bind."""
    want = "%04X" % port
    for f in ("/proc/net/tcp", "/proc/net/tcp6"):
        try:
            with open(f) as fh:
                next(fh, None)
                for line in fh:
                    p = line.split()
                    if len(p) > 3 and p[3] == "0A" and p[1].rsplit(":", 1)[-1] == want:
                        return True
        except OSError:
            pass
    return False


def free_port(port):
    try:
        os.unlink(os.path.join(PORT_DIR, str(port)))
    except FileNotFoundError:
        pass


class Scratch:
    def __init__(self, tag="s"):
        base = "/dev/shm" if os.path.isdir("/dev/shm") else tempfile.gettempdir()
        self.dir = tempfile.mkdtemp(prefix="mrv-%s-%d-" % (tag, os.getpid()), dir=base)
        self.ports = []
        self.pgids = set()  # informational only
        self.popens = []
        self.owner = os.getpid()
        _ALL.append(self)

    def port(self):
        p = alloc_port()
        self.ports.append(p)
        return p

    def env(self, extra=None):
        e = dict(BASE_ENV)
        e["HOME"] = self.dir
        if extra:
            e.update(extra)
        return e

    def cleanup(self):
        if os.getpid() != self.owner:
            return
        # Only processes we still own (started by us and not yet reaped) are signalled: their pid is
        # then guaranteed not to have been reused. Killing remembered pids/pgids blindly is unsafe
        # here - pid_max is 32768 and the explorers spawn thousands of processes, so numbers wrap
        # within minutes and a stale pgid can belong to an unrelated live process.
        for p in list(self.popens):
            try:
                if p.poll() is None:
                    try:
                        os.killpg(p.pid, signal.SIGKILL)
                    except (ProcessLookupError, PermissionError):
                        pass
                    p.wait(timeout=5)
            except Exception:
                pass
        self.popens = []
        for p in self.ports:
            free_port(p)
        self.ports = []
        shutil.rmtree(self.dir, ignore_errors=True)


def _cleanup_all():
    for s in _ALL:
        s.cleanup()


atexit.register(_cleanup_all)


def _sig(signum, frame):
    _cleanup_all()
    os._exit(2)


for _s in (signal.SIGTERM, signal.SIGINT, signal.SIGHUP):
    try:
        signal.signal(_s, _sig)
    except Exception:
        pass


LINES = "".join("line %d of the original content\n" % i for i in range(8))


def content(cid):
    """File content for content id `cid`: several lines so git's rename detection can fire."""
    return "content-%s\n%s" % (cid, LINES)


class Repo:
    """A scratch git repository with a Monorail.json.
    targets: list of target dicts (path/uses/ignores/commands/argmaps).
    commands: {target_path: {command: 'x' | 'nox' | None}} - which command files exist
    (symlink to vhelper, regular file without the x bit, absent)."""

    def __init__(self, scratch, name, targets, commands=None, cfg_extra=None, files=None,
                 max_retained_runs=None, init_git=True, ports=True):
        self.s = scratch
        self.dir = os.path.join(scratch.dir, name)
        os.makedirs(self.dir)
        self.cfg = {"targets": targets}
        if ports:
            self.lock_port = scratch.port()
            self.log_port = scratch.port()
            self.cfg["server"] = {"lock": {"port": self.lock_port}, "log": {"port": self.log_port}}
        if max_retained_runs is not None:
            self.cfg["max_retained_runs"] = max_retained_runs
        if cfg_extra:
            self.cfg.update(cfg_extra)
        self.write_cfg()
        self.write(".gitignore", "monorail-out\n")
        for t in targets:
            self.write(os.path.join(t["path"], "f.txt"), content("init-" + t["path"]))
        for tpath, cmds in (commands or {}).items():
            for cmd, mode in cmds.items():
                self.command_file(tpath, cmd, mode)
        for p, c in (files or {}).items():
            self.write(p, c)
        self.trace_dir = os.path.join(scratch.dir, name + "-trace")
        self.script_dir = os.path.join(scratch.dir, name + "-scripts")
        os.makedirs(self.trace_dir)
        os.makedirs(self.script_dir)
        if init_git:
            self.git("init", "-q", "-b", "main")
            self.git("config", "core.quotePath", "true")
            self.commit("init")

    def write_cfg(self):
        with open(os.path.join(self.dir, "Monorail.json"), "w") as f:
            json.dump(self.cfg, f, indent=1)

    def path(self, rel):
        return os.path.join(self.dir, rel)

    def write(self, rel, data):
        p = self.path(rel)
        os.makedirs(os.path.dirname(p), exist_ok=True)
        mode = "wb" if isinstance(data, bytes) else "w"
        with open(p, mode) as f:
            f.write(data)

    def command_file(self, tpath, cmd, mode, cmd_dir=None, name=None):
        d = self.path(cmd_dir if cmd_dir is not None else os.path.join(tpath, "monorail/cmd"))
        os.makedirs(d, exist_ok=True)
        p = os.path.join(d, name or (cmd + ".sh"))
        if os.path.lexists(p):
            os.unlink(p)
        if mode == "x":
            os.symlink(common.VHELPER, p)
        elif mode and mode.startswith("x") and mode[1:].isdigit():
            # a real copy with exactly these permission bits (e.g. x700, x750, x744, x100)
            shutil.copyfile(common.VHELPER, p)
            os.chmod(p, int(mode[1:], 8))
        elif mode == "noxlink":
            # a symbolic link (whose own mode is 0777) to a file without any execute bit
            tgt = p + ".target"
            with open(tgt, "w") as f:
                f.write("#!/bin/sh\nexit 0\n")
            os.chmod(tgt, 0o644)
            os.symlink(tgt, p)
        elif mode == "nox":
            with open(p, "w") as f:
                f.write("#!/bin/sh\nexit 0\n")
            os.chmod(p, 0o644)
        return p

    def git(self, *args, check=True):
        r = subprocess.run(["git"] + list(args), cwd=self.dir, env=self.s.env(), capture_output=True, text=True)
        if check and r.returncode != 0:
            raise common.EngineError("git %s failed: %s" % (" ".join(args), r.stderr))
        return r.stdout

    def commit(self, msg="c"):
        self.git("add", "-A")
        self.git("commit", "-q", "--allow-empty", "-m", msg)
        return self.git("rev-parse", "HEAD").strip()

    def head(self):
        return self.git("rev-parse", "HEAD").strip()

    def script_key(self, cwd, argv0):
        return hashlib.sha256((cwd + "\0" + argv0).encode()).hexdigest()

    def set_script(self, tpath, cmd, lines, argv0=None, nth=None):
        """Trace-mode behaviour of (target, command): list of protocol lines (nth: only for the n-th
        invocation of that executable, counted from 1)."""
        argv0 = argv0 or os.path.join(self.dir, tpath, "monorail/cmd", cmd + ".sh")
        key = self.script_key(os.path.join(self.dir, tpath), argv0)
        if nth:
            key = "%s.%d" % (key, nth)
        with open(os.path.join(self.script_dir, key), "w") as f:
            f.write("\n".join(lines) + "\n")

    def clear_traces(self):
        for f in os.listdir(self.trace_dir):
            os.unlink(os.path.join(self.trace_dir, f))

    def traces(self):
        """Trace records of every vhelper started since the last clear: list of dicts with
        argv, cwd, start, end, code."""
        out = []
        for f in sorted(os.listdir(self.trace_dir)):
            rec = {}
            for line in open(os.path.join(self.trace_dir, f)):
                line = line.strip()
                if not line:
                    continue
                ev = json.loads(line)
                if ev["event"] == "start":
                    rec.update(argv=ev["argv"], cwd=ev["cwd"], start=ev["t"], pid=ev["pid"])
                else:
                    rec.update(end=ev["t"], code=ev["code"])
            if rec:
                out.append(rec)
        return out

    def trace_env(self):
        return {"VHELPER_TRACE": self.trace_dir, "VHELPER_SCRIPTS": self.script_dir}

    def foreign_cwd(self):
        """From now on monorail is invoked with `-f <abs config>` from a different directory that has an
        unrelated output directory of its own (which must stay untouched)."""
        d = os.path.join(self.s.dir, os.path.basename(self.dir) + "-elsewhere")
        os.makedirs(os.path.join(d, self.cfg.get("out_dir", "monorail-out"), "tracking"), exist_ok=True)
        with open(os.path.join(d, self.cfg.get("out_dir", "monorail-out"), "tracking", "unrelated.txt"), "w") as f:
            f.write("belongs to another project\n")
        self.invoke_cwd = d
        return d

    def cmdline(self, *args):
        """(argv, cwd) for starting monorail on this repository under a controller: from the repository
        root, or - after foreign_cwd() - as `-f <abs config>` from the other directory."""
        g = list(getattr(self, "global_flags", None) or [])
        # launch_prefix: something that execs monorail after changing its process environment (resource limits)
        pre = list(getattr(self, "launch_prefix", None) or [])
        if getattr(self, "invoke_cwd", None):
            return pre + [common.MONORAIL] + g + ["-f", os.path.join(self.dir, "Monorail.json")] + list(args), self.invoke_cwd
        return pre + [common.MONORAIL] + g + list(args), self.dir

    def limit_open_files(self, n):
        """From now on monorail is started (by cmdline()) with a soft limit of n open files, like `ulimit -S -n n`."""
        import sys
        self.launch_prefix = [sys.executable, "-c",
                              "import os,resource,sys; h=resource.getrlimit(resource.RLIMIT_NOFILE)[1]; resource.setrlimit(resource.RLIMIT_NOFILE,(%d,h)); os.execv(sys.argv[1], sys.argv[1:])" % n]

    def mr(self, *args, env=None, timeout=120, stdin=None, cwd=None, nofile=None, cpus=None):
        """Runs the hooks-on monorail binary in the repository; returns Result."""
        if getattr(self, "invoke_cwd", None) and cwd is None and "-f" not in args:
            cwd = self.invoke_cwd
            args = ("-f", os.path.join(self.dir, "Monorail.json")) + tuple(args)
        e = self.s.env(env)
        args = tuple(getattr(self, "global_flags", None) or []) + tuple(args)
        try:
            pre = None
            if nofile:
                import resource
                pre = lambda: resource.setrlimit(resource.RLIMIT_NOFILE, (nofile, nofile))   # a small descriptor limit
            if cpus:
                pre = lambda: os.sched_setaffinity(0, cpus)   # like `taskset -c`: a container or VM with that many CPUs
            r = subprocess.run([common.MONORAIL] + list(args), cwd=cwd or self.dir, env=e,
                               capture_output=True, timeout=timeout, input=stdin, preexec_fn=pre)
        except subprocess.TimeoutExpired:
            return Result(-999, b"", b"timeout")
        return Result(r.returncode, r.stdout, r.stderr)

    def out_dir(self):
        return self.path(self.cfg.get("out_dir", "monorail-out"))

    def target_pair(self, rec):
        """(target, command-file stem) of a trace/arrival record, from cwd and argv[0]."""
        t = os.path.relpath(rec["cwd"], self.dir)
        stem = os.path.basename(rec["argv"][0]).split(".")[0]
        return t, stem


class Result:
    def __init__(self, code, out, err):
        self.code = code
        self.out = out
        self.err = err

    def json(self):
        """The last JSON line of stdout (the result document), or None."""
        return _last_json(self.out)

    def err_json(self):
        return _last_json(self.err)

    def __repr__(self):
        return "Result(code=%s, out=%r, err=%r)" % (self.code, self.out[:300], self.err[:300])


def _last_json(b):
    for line in reversed(b.decode(errors="replace").strip().splitlines()):
        line = line.strip()
        if line.startswith("{"):
            try:
                d = json.loads(line)
            except Exception:
                continue
            if isinstance(d, dict) and "level" in d and "message" in d and "kind" not in d:
                continue   # a diagnostic line of a verbose invocation, not the document
            return d
    return None


def snapshot(path, skip=()):
    """Recursive content snapshot {relpath: sha256 | 'dir' | 'link:<target>'}."""
    out = {}
    if not os.path.exists(path):
        return out
    for root, dirs, files in os.walk(path):
        rel = os.path.relpath(root, path)
        if any(rel == s or rel.startswith(s + os.sep) for s in skip):
            dirs[:] = []
            continue
        out[rel + "/"] = "dir"
        for f in files:
            p = os.path.join(root, f)
            r = os.path.normpath(os.path.join(rel, f))
            if os.path.islink(p):
                out[r] = "link:" + os.readlink(p)
            else:
                try:
                    out[r] = hashlib.sha256(open(p, "rb").read()).hexdigest()
                except OSError:
                    out[r] = "unreadable"
    return out


def zstd_cat(path):
    """Independent decode of a .zst file (zstd CLI if present, else the harness' zcat mode)."""
    r = subprocess.run([common.VX, "zcat", path], capture_output=True)
    if r.returncode != 0:
        raise IOError("decode failed for %s: %s" % (path, r.stderr.decode(errors="replace")[:200]))
    return r.stdout
