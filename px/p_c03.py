import common, p_vxbase, cli_slices

ASSUME = ["any valid layering is accepted; cases whose only cycles are unreachable from the roots are executed but not judged",
          "root order of the visibility walk: ascending and descending (production iterates a HashSet)"]

def run(prop, tier):
    r = common.run_vx(prop.lower(), tier)
    cli_slices.merge(r, prop, tier)
    return r, ASSUME

def replay(prop, path):
    return p_vxbase.replay(prop, path, prop.lower())
