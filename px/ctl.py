"""Controller: one single-threaded selectors loop owning the child socket (vhelper in controlled
mode), the point socket (verif::point in monorail) and the processes it started. Every event is
appended to one totally ordered log; monitors are predicates over that log - no clocks compared."""
import errno
import json
import os
import selectors
import signal
import socket
import subprocess
import time

import common


class Child:
    def __init__(self, cid, info, conn):
        self.id = cid
        self.pid = info["pid"]
        self.argv = info["argv"]
        self.cwd = info["cwd"]
        self.conn = conn
        self.state = "waiting"  # waiting -> released -> gone
        self.arrive_seq = None
        self.release_seq = None
        self.gone_seq = None
        self.exit_code_sent = None
        self.acks = 0
        self.sent = 0

    def __repr__(self):
        return "Child(%s %s %s)" % (self.id, self.cwd, self.state)


class Hit:
    def __init__(self, hid, info, conn):
        self.id = hid
        self.pid = info["pid"]
        self.name = info["name"]
        self.pseq = info.get("seq")
        self.conn = conn
        self.state = "held"
        self.seq = None
        self.resume_seq = None


class Proc:
    def __init__(self, name, popen):
        self.name = name
        self.p = popen
        self.out = b""
        self.err = b""
        self.code = None
        self.exit_seq = None
        self.open_pipes = 2

    def done(self):
        return self.code is not None


class Conn:
    def __init__(self, sock):
        self.sock = sock
        self.buf = b""
        self.obj = None  # Child or Hit once the hello line arrived


class Controller:
    def __init__(self, scratch, tag="ctl"):
        self.scratch = scratch
        self.path = os.path.join(scratch.dir, "%s-%d.sock" % (tag, len(os.listdir(scratch.dir))))
        self.srv = socket.socket(socket.AF_UNIX, socket.SOCK_STREAM)
        self.srv.bind(self.path)
        self.srv.listen(512)
        self.srv.setblocking(False)
        self.sel = selectors.DefaultSelector()
        self.sel.register(self.srv, selectors.EVENT_READ, ("srv", None))
        self.events = []
        self.children = []
        self.hits = []
        self.procs = []
        self.auto_points = None  # callable(hit) -> b'c' | b'x' | None (None = hold)
        self.tick_hook = None    # callable() run at the end of every pump

    # ------------------------------------------------------------------ environment
    def env(self, points=None, children=True):
        e = {}
        if children:
            e["VHELPER_CTL"] = self.path
        if points:
            e["MONORAIL_VERIF_CTL"] = self.path
            e["MONORAIL_VERIF_POINTS"] = ",".join(points)
        return e

    # ------------------------------------------------------------------ log
    def log(self, typ, **kw):
        ev = dict(kw)
        ev["n"] = len(self.events)
        ev["type"] = typ
        self.events.append(ev)
        return ev["n"]

    # ------------------------------------------------------------------ processes
    def spawn(self, name, argv, cwd, env, stdin=None):
        p = subprocess.Popen(argv, cwd=cwd, env=env, stdout=subprocess.PIPE, stderr=subprocess.PIPE,
                             stdin=subprocess.DEVNULL if stdin is None else stdin,
                             start_new_session=True)
        self.scratch.popens.append(p)
        pr = Proc(name, p)
        for f, which in ((p.stdout, "out"), (p.stderr, "err")):
            os.set_blocking(f.fileno(), False)
            self.sel.register(f, selectors.EVENT_READ, ("pipe", (pr, which)))
        self.procs.append(pr)
        self.log("proc_start", proc=name, pid=p.pid)
        return pr

    def kill(self, pr, sig=signal.SIGKILL, group=False):
        self.log("kill", proc=pr.name, sig=int(sig))
        if pr.code is not None or pr.p.poll() is not None:
            return  # already reaped: the pid may have been reused, never signal it
        try:
            if group:
                os.killpg(pr.p.pid, sig)
            else:
                os.kill(pr.p.pid, sig)
        except ProcessLookupError:
            pass

    # ------------------------------------------------------------------ loop
    def pump(self, timeout=0.05):
        ready = self.sel.select(timeout)
        # connection data / EOFs first, new connections last: an exit that happened before a later
        # child's connect is then always logged before that child's arrival
        order = {"conn": 0, "pipe": 1, "srv": 2}
        ready.sort(key=lambda kv: order[kv[0].data[0]])
        for key, _ in ready:
            kind, data = key.data
            if kind == "srv":
                while True:
                    try:
                        s, _ = self.srv.accept()
                    except BlockingIOError:
                        break
                    s.setblocking(False)
                    c = Conn(s)
                    self.sel.register(s, selectors.EVENT_READ, ("conn", c))
            elif kind == "conn":
                self._read_conn(data)
            elif kind == "pipe":
                pr, which = data
                f = pr.p.stdout if which == "out" else pr.p.stderr
                try:
                    chunk = os.read(f.fileno(), 1 << 16)
                except BlockingIOError:
                    continue
                if chunk:
                    if which == "out":
                        pr.out += chunk
                    else:
                        pr.err += chunk
                    self.log("proc_output", proc=pr.name, stream=which, size=len(chunk))
                else:
                    self.sel.unregister(f)
                    pr.open_pipes -= 1
        for pr in self.procs:
            if pr.code is None and pr.open_pipes == 0:
                rc = pr.p.poll()
                if rc is not None:
                    pr.code = rc
                    pr.exit_seq = self.log("proc_exit", proc=pr.name, code=rc)
        if self.tick_hook is not None:
            self.tick_hook()
        # a process can exit while an orphan still holds its pipes: poll regardless after a while
        for pr in self.procs:
            if pr.code is None and pr.open_pipes > 0:
                rc = pr.p.poll()
                if rc is not None and getattr(pr, "_exit_seen", None) is None:
                    pr._exit_seen = time.time()
                if rc is not None and time.time() - pr._exit_seen > 0.3:
                    pr.code = rc
                    pr.exit_seq = self.log("proc_exit", proc=pr.name, code=rc, pipes_open=pr.open_pipes)

    def _read_conn(self, c):
        try:
            data = c.sock.recv(1 << 16)
        except BlockingIOError:
            return
        except ConnectionResetError:
            data = b""
        if not data:
            self.sel.unregister(c.sock)
            c.sock.close()
            if isinstance(c.obj, Child) and c.obj.state != "gone":
                c.obj.state = "gone"
                c.obj.gone_seq = self.log("child_gone", child=c.obj.id)
            elif isinstance(c.obj, Hit) and c.obj.state == "held":
                c.obj.state = "dead"
                self.log("point_dead", hit=c.obj.id, name=c.obj.name)
            return
        c.buf += data
        while b"\n" in c.buf:
            line, c.buf = c.buf.split(b"\n", 1)
            if c.obj is None:
                info = json.loads(line.decode())
                if info.get("kind") == "child":
                    ch = Child(len(self.children), info, c)
                    c.obj = ch
                    self.children.append(ch)
                    ch.arrive_seq = self.log("child_arrive", child=ch.id, cwd=ch.cwd, argv=ch.argv, pid=ch.pid)
                else:
                    h = Hit(len(self.hits), info, c)
                    c.obj = h
                    self.hits.append(h)
                    h.seq = self.log("point_hit", hit=h.id, name=h.name, pid=h.pid)
                    if self.auto_points is not None:
                        ans = self.auto_points(h)
                        if ans is not None:
                            self.resume(h, ans)
            elif isinstance(c.obj, Child):
                if line == b"ok":
                    c.obj.acks += 1
                elif line == b"bye":
                    c.obj.acks += 1
                    self.log("child_bye", child=c.obj.id)

    def wait(self, pred, timeout=10.0, tick=0.02):
        """Pump until pred() is truthy or the timeout expires; returns pred()'s last value."""
        end = time.time() + timeout
        while True:
            v = pred()
            if v:
                return v
            left = end - time.time()
            if left <= 0:
                return v
            self.pump(min(tick, left))

    def settle(self, quiet=0.15, timeout=5.0):
        """Pump until no new event has been logged for `quiet` seconds."""
        end = time.time() + timeout
        last_n, last_t = len(self.events), time.time()
        while time.time() < end:
            self.pump(0.02)
            if len(self.events) != last_n:
                last_n, last_t = len(self.events), time.time()
            elif time.time() - last_t >= quiet:
                return True
        return False

    # ------------------------------------------------------------------ children
    def waiting(self):
        return [c for c in self.children if c.state == "waiting"]

    def send(self, ch, lines):
        data = ("\n".join(lines) + "\n").encode()
        try:
            ch.conn.sock.setblocking(True)
            ch.conn.sock.sendall(data)
            ch.conn.sock.setblocking(False)
            ch.sent += len(lines)
        except (BrokenPipeError, ConnectionResetError, OSError):
            pass

    def wait_acks(self, ch, timeout=10.0):
        return self.wait(lambda: ch.acks >= ch.sent or ch.state == "gone", timeout)

    def release(self, ch, code=0, lines=None):
        """Let the child run its scripted lines and exit with `code` (code < 0: die by signal -code)."""
        ch.state = "released"
        ch.exit_code_sent = code
        ch.release_seq = self.log("release", child=ch.id, code=code)
        self.send(ch, list(lines or []) + (["exit %d" % code] if code >= 0 else ["kill %d" % -code]))

    # ------------------------------------------------------------------ points
    def held(self, prefix=None):
        return [h for h in self.hits if h.state == "held" and (prefix is None or h.name.startswith(prefix))]

    def resume(self, h, ans=b"c"):
        h.state = "resumed" if ans == b"c" else "aborted"
        h.resume_seq = self.log("point_resume", hit=h.id, name=h.name, answer=ans.decode())
        try:
            h.conn.sock.setblocking(True)
            h.conn.sock.sendall(ans)
            h.conn.sock.setblocking(False)
        except OSError:
            pass

    # ------------------------------------------------------------------ teardown
    def close(self):
        try:
            self.pump(0)  # process pending EOFs so that `gone` children are not signalled
        except Exception:
            pass
        for pr in self.procs:
            if pr.p.poll() is None:
                try:
                    os.killpg(pr.p.pid, signal.SIGKILL)
                except ProcessLookupError:
                    pass
            try:
                pr.p.wait(timeout=5)
            except Exception:
                pass
            for f in (pr.p.stdout, pr.p.stderr):
                try:
                    f.close()
                except Exception:
                    pass
        for ch in self.children:
            # orphans (monorail died first): let them exit
            if ch.state != "gone":
                try:
                    os.kill(ch.pid, signal.SIGKILL)
                except ProcessLookupError:
                    pass
        for key in list(self.sel.get_map().values()):
            try:
                self.sel.unregister(key.fileobj)
                if key.data[0] == "conn":
                    key.fileobj.close()
            except Exception:
                pass
        self.srv.close()
        try:
            os.unlink(self.path)
        except FileNotFoundError:
            pass
        self.sel.close()


def hexs(b):
    if isinstance(b, str):
        b = b.encode()
    return b.hex()
