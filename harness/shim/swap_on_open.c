/* LD_PRELOAD fault injector: the first time the process opens the file named by MRV_SWAP_TARGET, the
 * file named by MRV_SWAP_WITH is renamed over it just before the open proceeds (another process
 * re-serialising the configuration, by write-to-temp-and-rename, at that very moment). Used by the
 * C18 check: whatever the reader did with the path before opening it must not matter. */
#define _GNU_SOURCE
#include <dlfcn.h>
#include <fcntl.h>
#include <stdarg.h>
#include <stdio.h>
#include <stdlib.h>
#include <string.h>

static int done = 0;

static void maybe_swap(const char *path) {
    const char *target = getenv("MRV_SWAP_TARGET");
    const char *with = getenv("MRV_SWAP_WITH");
    if (done || !target || !with || !path) return;
    if (strcmp(path, target) != 0) return;
    done = 1;
    rename(with, target);
}

#define WRAP(name)                                                            \
    int name(const char *path, int flags, ...) {                              \
        static int (*real)(const char *, int, ...) = 0;                       \
        if (!real) real = dlsym(RTLD_NEXT, #name);                            \
        mode_t mode = 0;                                                      \
        if (flags & O_CREAT) { va_list ap; va_start(ap, flags); mode = va_arg(ap, int); va_end(ap); } \
        maybe_swap(path);                                                     \
        return real(path, flags, mode);                                       \
    }
WRAP(open)
WRAP(open64)

#define WRAPAT(name)                                                          \
    int name(int dirfd, const char *path, int flags, ...) {                   \
        static int (*real)(int, const char *, int, ...) = 0;                  \
        if (!real) real = dlsym(RTLD_NEXT, #name);                            \
        mode_t mode = 0;                                                      \
        if (flags & O_CREAT) { va_list ap; va_start(ap, flags); mode = va_arg(ap, int); va_end(ap); } \
        maybe_swap(path);                                                     \
        return real(dirfd, path, flags, mode);                                \
    }
WRAPAT(openat)
WRAPAT(openat64)
