/* LD_PRELOAD fault injector: delays every getaddrinfo() call by MRV_SLOW_RESOLVE_MS milliseconds
 * (a slow name service). Used by the C14 check to make the lock bind outlast bind_timeout_ms. */
#define _GNU_SOURCE
#include <dlfcn.h>
#include <netdb.h>
#include <stdlib.h>
#include <time.h>

int getaddrinfo(const char *node, const char *service, const struct addrinfo *hints, struct addrinfo **res) {
    static int (*real)(const char *, const char *, const struct addrinfo *, struct addrinfo **) = 0;
    if (!real) real = dlsym(RTLD_NEXT, "getaddrinfo");
    const char *ms = getenv("MRV_SLOW_RESOLVE_MS");
    if (ms) {
        long v = atol(ms);
        struct timespec ts = { v / 1000, (v % 1000) * 1000000L };
        nanosleep(&ts, 0);
    }
    return real(node, service, hints, res);
}
