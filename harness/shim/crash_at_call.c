/* LD_PRELOAD fault injector: the process is killed (SIGKILL to itself) at the K-th file-system call that
 * concerns a path containing MRV_CRASH_MATCH - either just before the call is made (MRV_CRASH_WHEN=pre)
 * or just after it returned (post). Counted calls: open/open64/openat (and their fds' later write, pwrite,
 * ftruncate, fsync, copy_file_range, sendfile as destination), rename/renameat/renameat2 (either name),
 * unlink/unlinkat, link, mkdir. K = MRV_CRASH_AT (1-based); every counted call is appended to MRV_CRASH_LOG
 * (if set) as "<n> <name> <path>". Only the process whose command line is the one that set the variables
 * is affected if MRV_CRASH_ONLY_PID_FILE is unset; children inherit the variables, so the harness clears
 * them for the executables monorail starts (they are started through vhelper, which ignores them: the
 * match string never occurs in what vhelper touches).
 * Used by the C13 check to enumerate crash points at system-call granularity, independent of where
 * guarded points happen to be in the source. */
#define _GNU_SOURCE
#include <dlfcn.h>
#include <fcntl.h>
#include <signal.h>
#include <stdarg.h>
#include <stdio.h>
#include <stdlib.h>
#include <string.h>
#include <sys/types.h>
#include <unistd.h>

#define MAXFD 4096
static char tracked[MAXFD];
static int counter = 0;

static const char *match(void) { return getenv("MRV_CRASH_MATCH"); }

static int concerns(const char *path) {
    const char *m = match();
    return m && *m && path && strstr(path, m) != 0;
}

static void point(const char *name, const char *path, int after) {
    const char *at = getenv("MRV_CRASH_AT");
    const char *when = getenv("MRV_CRASH_WHEN");
    int want_after = when && strcmp(when, "post") == 0;
    if (!after) {
        counter++;
        const char *log = getenv("MRV_CRASH_LOG");
        if (log) {
            int (*ropen)(const char *, int, ...) = dlsym(RTLD_NEXT, "open");
            ssize_t (*rwrite)(int, const void *, size_t) = dlsym(RTLD_NEXT, "write");
            int fd = ropen(log, O_WRONLY | O_APPEND | O_CREAT, 0644);
            if (fd >= 0) {
                char buf[600];
                int n = snprintf(buf, sizeof buf, "%d %s %s\n", counter, name, path ? path : "");
                if (n > 0) rwrite(fd, buf, (size_t)n);
                close(fd);
            }
        }
    }
    if (!at) return;
    if (counter == atoi(at) && after == want_after) kill(getpid(), SIGKILL);
}

#define OPENLIKE(name, decl_args, call_args, pathvar)                          \
    int name decl_args {                                                       \
        static int (*real)() = 0;                                              \
        if (!real) real = dlsym(RTLD_NEXT, #name);                             \
        mode_t mode = 0;                                                       \
        if (flags & (O_CREAT | O_TMPFILE)) { va_list ap; va_start(ap, flags); mode = va_arg(ap, int); va_end(ap); } \
        int c = concerns(pathvar);                                             \
        if (c) point(#name, pathvar, 0);                                       \
        int fd = real call_args;                                               \
        if (c && fd >= 0 && fd < MAXFD) tracked[fd] = 1;                       \
        else if (fd >= 0 && fd < MAXFD) tracked[fd] = 0;                       \
        if (c) point(#name, pathvar, 1);                                       \
        return fd;                                                             \
    }
OPENLIKE(open, (const char *path, int flags, ...), (path, flags, mode), path)
OPENLIKE(open64, (const char *path, int flags, ...), (path, flags, mode), path)
OPENLIKE(openat, (int dirfd, const char *path, int flags, ...), (dirfd, path, flags, mode), path)
OPENLIKE(openat64, (int dirfd, const char *path, int flags, ...), (dirfd, path, flags, mode), path)

int close(int fd) {
    static int (*real)(int) = 0;
    if (!real) real = dlsym(RTLD_NEXT, "close");
    if (fd >= 0 && fd < MAXFD) tracked[fd] = 0;
    return real(fd);
}

#define FDCALL(ret, name, decl_args, call_args, fdvar)                         \
    ret name decl_args {                                                       \
        static ret (*real)() = 0;                                              \
        if (!real) real = dlsym(RTLD_NEXT, #name);                             \
        int c = fdvar >= 0 && fdvar < MAXFD && tracked[fdvar];                 \
        if (c) point(#name, "<fd>", 0);                                        \
        ret r = real call_args;                                                \
        if (c) point(#name, "<fd>", 1);                                        \
        return r;                                                              \
    }
FDCALL(ssize_t, write, (int fd, const void *buf, size_t n), (fd, buf, n), fd)
FDCALL(ssize_t, pwrite, (int fd, const void *buf, size_t n, off_t o), (fd, buf, n, o), fd)
FDCALL(ssize_t, pwrite64, (int fd, const void *buf, size_t n, off_t o), (fd, buf, n, o), fd)
FDCALL(int, ftruncate, (int fd, off_t l), (fd, l), fd)
FDCALL(int, ftruncate64, (int fd, off_t l), (fd, l), fd)
FDCALL(int, fsync, (int fd), (fd), fd)
FDCALL(int, fdatasync, (int fd), (fd), fd)
FDCALL(ssize_t, copy_file_range, (int fi, off_t *oi, int fo, off_t *oo, size_t n, unsigned fl), (fi, oi, fo, oo, n, fl), fo)
FDCALL(ssize_t, sendfile, (int fo, int fi, off_t *o, size_t n), (fo, fi, o, n), fo)
FDCALL(ssize_t, sendfile64, (int fo, int fi, off_t *o, size_t n), (fo, fi, o, n), fo)

#define PATH2(name, decl_args, call_args, p1, p2)                              \
    int name decl_args {                                                       \
        static int (*real)() = 0;                                              \
        if (!real) real = dlsym(RTLD_NEXT, #name);                             \
        int c = concerns(p1) || concerns(p2);                                  \
        if (c) point(#name, concerns(p2) ? p2 : p1, 0);                        \
        int r = real call_args;                                                \
        if (c) point(#name, concerns(p2) ? p2 : p1, 1);                        \
        return r;                                                              \
    }
PATH2(rename, (const char *a, const char *b), (a, b), a, b)
PATH2(renameat, (int da, const char *a, int db, const char *b), (da, a, db, b), a, b)
PATH2(renameat2, (int da, const char *a, int db, const char *b, unsigned fl), (da, a, db, b, fl), a, b)
PATH2(link, (const char *a, const char *b), (a, b), a, b)
PATH2(linkat, (int da, const char *a, int db, const char *b, int fl), (da, a, db, b, fl), a, b)

#define PATH1(name, decl_args, call_args, p1)                                  \
    int name decl_args {                                                       \
        static int (*real)() = 0;                                              \
        if (!real) real = dlsym(RTLD_NEXT, #name);                             \
        int c = concerns(p1);                                                  \
        if (c) point(#name, p1, 0);                                            \
        int r = real call_args;                                                \
        if (c) point(#name, p1, 1);                                            \
        return r;                                                              \
    }
PATH1(unlink, (const char *a), (a), a)
PATH1(unlinkat, (int d, const char *a, int fl), (d, a, fl), a)
PATH1(mkdir, (const char *a, mode_t m), (a, m), a)
PATH1(mkdirat, (int d, const char *a, mode_t m), (d, a, m), a)
PATH1(rmdir, (const char *a), (a), a)
