//! C01 - change-to-target mapping is exact. Real `Index::new` + `analyze` via `verif::analyze`
//! against the recursive definition in the property statement (three-valued on the one
//! documented-silent case).

use crate::*;
use rayon::prelude::*;
use serde_json::{json, Value};
use std::collections::BTreeSet;
use std::path::Path;

pub const D: [&str; 6] = ["a", "ab", "a/c", "a/cd", "a/c/e", "b"];
pub const P_EXTRA: [&str; 9] = [
    "lib", "lib2", "lib/x", "a/f", "a/c/f", "a/c/gen", "ab/f", "b/f", "x.txt",
];

pub fn change_universe() -> Vec<String> {
    let mut v = vec![];
    for d in D.iter().chain(["lib", "lib2", "a/c/gen"].iter()) {
        v.push(format!("{}/f", d));
        v.push(format!("{}/fa", d));
    }
    v.push("x.txt".into());
    v.push("x.txt2".into());
    v.push("lib/x".into());
    // a changed path that IS a configured path (git reports a symbolic link, a single file or a
    // submodule that way): equal to a target path / a uses entry, not below it
    for d in ["a", "a/c", "ab", "lib"] {
        v.push(d.to_string());
    }
    v
}

pub fn setup(root: &Path) {
    make_universe(
        root,
        &["a", "ab", "a/c", "a/cd", "a/c/e", "b", "lib", "lib2", "a/c/gen"],
        &["x.txt", "lib/x"],
    );
}

/// (MUST, MAY) sets of target paths for one change.
pub fn oracle(cfg: &Cfg, c: &str, raw: bool) -> (BTreeSet<String>, BTreeSet<String>) {
    let ins = |x: &str, p: &str| if raw { x.starts_with(p) } else { inside(x, p) };
    let n = cfg.targets.len();
    let ign: Vec<bool> = cfg
        .targets
        .iter()
        .map(|t| t.ignores.iter().any(|g| ins(c, g)))
        .collect();
    let silent = |u: &str| -> bool { (0..n).any(|x| cfg.targets[x].path == u && ign[x]) };
    let mut out = vec![BTreeSet::new(), BTreeSet::new()];
    for (mode, set) in out.iter_mut().enumerate() {
        // fixpoint of aff(T) = !ign(T) && (direct(T) || exists nested N with aff(N))
        let mut aff = vec![false; n];
        for t in 0..n {
            let tt = &cfg.targets[t];
            let direct = ins(c, &tt.path)
                || tt
                    .uses
                    .iter()
                    .any(|u| ins(c, u) && (mode == 1 || !silent(u)));
            aff[t] = !ign[t] && direct;
        }
        loop {
            let mut changed = false;
            for t in 0..n {
                if !aff[t] && !ign[t] {
                    let any_nested = (0..n).any(|m| {
                        m != t
                            && aff[m]
                            && cfg.targets[m].path != cfg.targets[t].path
                            && ins(&cfg.targets[m].path, &cfg.targets[t].path)
                    });
                    if any_nested {
                        aff[t] = true;
                        changed = true;
                    }
                }
            }
            if !changed {
                break;
            }
        }
        for t in 0..n {
            if aff[t] {
                set.insert(cfg.targets[t].path.clone());
            }
        }
    }
    let may = out.pop().unwrap();
    let must = out.pop().unwrap();
    (must, may)
}

struct Parsed {
    targets: Vec<String>,
    union_nonignored: Option<BTreeSet<String>>,
}

fn call(cfg_json: &str, changes: &[String], root: &Path, detail: bool) -> Result<Parsed, (String, String)> {
    let ch = changes.to_vec();
    let res = guarded(|| monorail::verif::analyze(cfg_json, Some(ch), detail, detail, false, root));
    let out = match res {
        Err(p) => return Err(("panic".into(), p)),
        Ok(Err(e)) => return Err(("error".into(), e)),
        Ok(Ok(o)) => o,
    };
    let v: Value = serde_json::from_str(&out).map_err(|e| ("error".to_string(), e.to_string()))?;
    let targets: Vec<String> = serde_json::from_value(v["targets"].clone())
        .map_err(|e| ("error".to_string(), e.to_string()))?;
    let mut union_nonignored = None;
    if detail {
        let mut u = BTreeSet::new();
        let chs = v["changes"].as_array().ok_or(("error".to_string(), "no changes array".to_string()))?;
        if chs.len() != changes.len() {
            return Err((
                "breakdown-length".into(),
                format!("{} changes in, {} entries out", changes.len(), chs.len()),
            ));
        }
        for c in chs {
            for t in c["targets"].as_array().cloned().unwrap_or_default() {
                if t["reason"] != "ignores" {
                    u.insert(t["path"].as_str().unwrap_or("").to_string());
                }
            }
        }
        union_nonignored = Some(u);
    }
    Ok(Parsed {
        targets,
        union_nonignored,
    })
}

fn sorted_strict(v: &[String]) -> bool {
    v.windows(2).all(|w| w[0] < w[1])
}

/// All checks for one configuration. Returns defects as (sig, detail, case-extra).
pub fn check_cfg(cfg: &Cfg, root: &Path, chs: &[String], multi: bool) -> Vec<(String, String, Value)> {
    let js = cfg.to_json();
    let mut defects = vec![];
    // a cyclic configuration may be rejected outright (C09 owns that); nothing to map then
    let all: BTreeSet<usize> = (0..cfg.targets.len()).collect();
    if has_cycle(&cfg.adj(), &all) {
        if let Err((_, d)) = call(&js, &[chs[0].clone()], root, false) {
            if d.contains("Cycle detected") {
                return defects;
            }
        }
    }
    let mut union_singles: BTreeSet<String> = BTreeSet::new();
    let mut singles_ok = true;
    for c in chs {
        let one = vec![c.clone()];
        match call(&js, &one, root, true) {
            Err((sig, d)) => {
                defects.push((sig, d, json!({"changes": one})));
                singles_ok = false;
            }
            Ok(p) => {
                let got: BTreeSet<String> = p.targets.iter().cloned().collect();
                union_singles.extend(got.iter().cloned());
                let (must, may) = oracle(cfg, c, false);
                if !sorted_strict(&p.targets) {
                    defects.push((
                        "unsorted-or-duplicate".into(),
                        format!("targets {:?}", p.targets),
                        json!({"changes": one}),
                    ));
                }
                if !(must.is_subset(&got) && got.is_subset(&may)) {
                    let missing: Vec<_> = must.difference(&got).cloned().collect();
                    let extra: Vec<_> = got.difference(&may).cloned().collect();
                    let (must_raw, may_raw) = oracle(cfg, c, true);
                    let sig = if must_raw.is_subset(&got) && got.is_subset(&may_raw) {
                        "raw-prefix-match"
                    } else if !extra.is_empty() {
                        "extra-target"
                    } else {
                        // are all missing targets enclosing dirs of a target affected through uses?
                        "missing-target"
                    };
                    defects.push((
                        sig.into(),
                        format!(
                            "change {:?}: reported {:?}, required {:?}, allowed {:?}; missing {:?}, extra {:?}",
                            c, p.targets, must, may, missing, extra
                        ),
                        json!({"changes": one}),
                    ));
                }
                if let Some(u) = p.union_nonignored {
                    if u != got {
                        defects.push((
                            "summary-breakdown-mismatch".into(),
                            format!("summary {:?} vs union of non-ignored breakdown entries {:?}", p.targets, u),
                            json!({"changes": one}),
                        ));
                    }
                }
            }
        }
    }
    if multi && singles_ok {
        let want: Vec<String> = union_singles.iter().cloned().collect();
        let mut lists: Vec<(&str, Vec<String>)> = vec![];
        lists.push(("empty", vec![]));
        lists.push(("all", chs.to_vec()));
        let mut rev = chs.to_vec();
        rev.reverse();
        lists.push(("all-reversed", rev));
        let mut dup = vec![];
        for c in chs {
            dup.push(c.clone());
            dup.push(c.clone());
        }
        lists.push(("all-duplicated", dup));
        for (name, l) in lists {
            let expect: Vec<String> = if l.is_empty() { vec![] } else { want.clone() };
            match call(&js, &l, root, true) {
                Err((sig, d)) => defects.push((sig, d, json!({"changes": l, "list": name}))),
                Ok(p) => {
                    if p.targets != expect {
                        defects.push((
                            "order-or-multiplicity-dependent".into(),
                            format!(
                                "list {}: targets {:?} but union of the single-change results is {:?}",
                                name, p.targets, expect
                            ),
                            json!({"changes": l, "list": name}),
                        ));
                    }
                    if let Some(u) = p.union_nonignored {
                        let got: BTreeSet<String> = p.targets.iter().cloned().collect();
                        if u != got {
                            defects.push((
                                "summary-breakdown-mismatch".into(),
                                format!("list {}: summary {:?} vs breakdown union {:?}", name, p.targets, u),
                                json!({"changes": l, "list": name}),
                            ));
                        }
                    }
                }
            }
            // the summary does not depend on whether the per-change breakdown was asked for
            match call(&js, &l, root, false) {
                Err((sig, d)) => defects.push((sig, d, json!({"changes": l, "list": name, "breakdown": false}))),
                Ok(p) => {
                    if p.targets != expect {
                        defects.push((
                            "summary-depends-on-output-flags".into(),
                            format!(
                                "list {} analysed without the per-change breakdown: targets {:?}, with it (and as union of the single-change results) {:?}",
                                name, p.targets, expect
                            ),
                            json!({"changes": l, "list": name, "breakdown": false}),
                        ));
                    }
                }
            }
        }
    }
    defects
}

/// Batch-boundary sweep for one configuration: one or two interesting changes at chosen positions
/// of a 121-element list of neutral fillers, and lists made only of interesting changes.
pub fn check_batching(cfg: &Cfg, root: &Path, chs: &[String], rep: &Report) -> Vec<(String, String, Value)> {
    let js = cfg.to_json();
    let mut defects = vec![];
    let fillers: Vec<String> = (0..121).map(|k| format!("zz/n{}", k)).collect();
    let single = |c: &String| -> Option<Vec<String>> { call(&js, &[c.clone()], root, false).ok().map(|p| p.targets) };
    // interesting = changes with a non-empty single result; use the first two distinct results
    let mut interesting: Vec<(String, Vec<String>)> = vec![];
    for c in chs {
        if let Some(t) = single(c) {
            if !t.is_empty() && !interesting.iter().any(|(_, tt)| tt == &t) {
                interesting.push((c.clone(), t));
            }
        }
        if interesting.len() == 2 {
            break;
        }
    }
    if interesting.is_empty() {
        return defects;
    }
    let (c0, t0) = interesting[0].clone();
    for pos in 0..=120usize {
        let mut l = fillers.clone();
        l[pos] = c0.clone();
        for rep_i in 0..2 {
            rep.eval(1);
            match call(&js, &l, root, false) {
                Err((sig, d)) => defects.push((sig, d, json!({"batch": {"change": c0, "pos": pos}}))),
                Ok(p) => {
                    if p.targets != t0 {
                        defects.push((
                            "batch-dependent".into(),
                            format!("change {:?} at position {} of 121 (run {}): {:?}, alone: {:?}", c0, pos, rep_i, p.targets, t0),
                            json!({"batch": {"change": c0, "pos": pos, "len": 121}}),
                        ));
                    }
                }
            }
        }
    }
    if interesting.len() == 2 {
        let (c1, t1) = interesting[1].clone();
        let mut want: BTreeSet<String> = t0.iter().cloned().collect();
        want.extend(t1.iter().cloned());
        let want: Vec<String> = want.into_iter().collect();
        let ps = [0usize, 49, 50, 51, 99, 100, 101, 120];
        for &i in &ps {
            for &j in &ps {
                if i == j {
                    continue;
                }
                let mut l = fillers.clone();
                l[i] = c0.clone();
                l[j] = c1.clone();
                for _ in 0..2 {
                    rep.eval(1);
                    match call(&js, &l, root, false) {
                        Err((sig, d)) => defects.push((sig, d, json!({"batch": {"changes": [c0, c1], "pos": [i, j]}}))),
                        Ok(p) => {
                            if p.targets != want {
                                defects.push((
                                    "batch-dependent".into(),
                                    format!("{:?}@{} and {:?}@{} of 121: {:?}, union of singles {:?}", c0, i, c1, j, p.targets, want),
                                    json!({"batch": {"changes": [c0, c1], "pos": [i, j], "len": 121}}),
                                ));
                            }
                        }
                    }
                }
            }
        }
    }
    // long lists made of the whole change universe repeated (every chunk is "interesting")
    let mut want: BTreeSet<String> = BTreeSet::new();
    for c in chs {
        if let Some(t) = single(c) {
            want.extend(t);
        }
    }
    let want: Vec<String> = want.into_iter().collect();
    for len in [50usize, 51, 100, 101, 150, 333] {
        let l: Vec<String> = (0..len).map(|k| chs[k % chs.len()].clone()).collect();
        if len < chs.len() {
            continue;
        }
        rep.eval(1);
        match call(&js, &l, root, true) {
            Err((sig, d)) => defects.push((sig, d, json!({"batch": {"cyclic_len": len}}))),
            Ok(p) => {
                if p.targets != want {
                    defects.push((
                        "batch-dependent".into(),
                        format!("cyclic list of {} changes: {:?}, union of singles {:?}", len, p.targets, want),
                        json!({"batch": {"cyclic_len": len}}),
                    ));
                }
            }
        }
    }
    defects
}

pub struct Bounds {
    pub max_t: usize,
    pub k_u: usize,
    pub k_i: usize,
    pub perm_t: usize,
}

fn entry_sets(nt: usize, entries: &[&str], k: usize) -> Vec<Vec<(usize, String)>> {
    let mut slots = vec![];
    for ti in 0..nt {
        for e in entries {
            slots.push((ti, e.to_string()));
        }
    }
    let mut out = vec![vec![]];
    if k >= 1 {
        for s in &slots {
            out.push(vec![s.clone()]);
        }
    }
    if k >= 2 {
        for i in 0..slots.len() {
            for j in (i + 1)..slots.len() {
                out.push(vec![slots[i].clone(), slots[j].clone()]);
            }
        }
    }
    out
}

pub fn feature_nontrivial(cfg: &Cfg, chs: &[String]) -> bool {
    // some change has MUST != {} and some prefix-sibling or nesting relation exists between two entries
    let mut names: Vec<&str> = vec![];
    for t in &cfg.targets {
        names.push(&t.path);
        names.extend(t.uses.iter().map(|s| s.as_str()));
        names.extend(t.ignores.iter().map(|s| s.as_str()));
    }
    let mut rel = false;
    for a in &names {
        for b in &names {
            if a != b && a.starts_with(b) {
                rel = true;
            }
        }
    }
    rel && chs.iter().any(|c| !oracle(cfg, c, false).0.is_empty())
}

pub const DU: [&str; 4] = ["caf\u{e9}", "caf\u{e9}s", "caf\u{e9}/\u{fc}", "b"];
pub const PU_EXTRA: [&str; 5] = ["lib\u{e9}", "lib\u{e9}s", "caf\u{e9}/f", "caf", "caf\u{e9}/\u{fc}/g"];

fn unicode_changes() -> Vec<String> {
    let mut v = vec![];
    for d in DU.iter().chain(["lib\u{e9}", "lib\u{e9}s", "caf"].iter()) {
        v.push(format!("{}/f", d));
        v.push(format!("{}/f\u{e9}", d));
    }
    v.push("caf\u{e9}".to_string() + "x/f");
    v
}

/// the non-ASCII universe: multi-byte characters in target, uses and ignores paths
fn run_unicode(rep: &Report, root: &Path, stage_desc: &mut Vec<Value>) -> u64 {
    make_universe(root, &["caf\u{e9}", "caf\u{e9}s", "caf\u{e9}/\u{fc}", "b", "lib\u{e9}", "lib\u{e9}s", "caf"], &[]);
    let chs = unicode_changes();
    let entries: Vec<&str> = DU.iter().chain(PU_EXTRA.iter()).copied().collect();
    let count = std::sync::atomic::AtomicU64::new(0);
    let tsets = subsets(&DU, 1, 3);
    tsets.par_iter().for_each(|tset| {
        let nt = tset.len();
        let us = entry_sets(nt, &entries, 1);
        let is = entry_sets(nt, &entries, 1);
        for u in &us {
            for i in &is {
                let mut base: Vec<Tgt> = tset.iter().map(|p| Tgt::new(p)).collect();
                for (ti, e) in u {
                    base[*ti].uses.push(e.clone());
                }
                for (ti, e) in i {
                    base[*ti].ignores.push(e.clone());
                }
                let cfg = Cfg { targets: base };
                count.fetch_add(1, std::sync::atomic::Ordering::Relaxed);
                rep.eval(chs.len() as u64 + 4);
                if feature_nontrivial(&cfg, &chs) {
                    rep.nontrivial(1);
                }
                for (sig, detail, extra) in check_cfg(&cfg, root, &chs, true) {
                    rep.violation(&sig, 8_000_000 + (nt as u64) * 100_000 + ((u.len() + i.len()) as u64) * 1000, json!({"config": cfg.to_value(), "input": extra, "universe": "unicode"}), detail);
                }
            }
        }
    });
    let c = count.load(std::sync::atomic::Ordering::Relaxed);
    stage_desc.push(json!({"family": "non-ASCII universe (multi-byte characters in target/uses/ignores paths, prefix siblings e-acute / e-acute+s)", "configurations": c, "changes": chs.len(), "complete": true}));
    c
}

/// the mapping is name-based: it must not depend on whether a `uses` / `ignores` path (still) exists on
/// disk - deletions are changes too. Same enumeration as the first stage with uses and ignores
/// entries, on a directory tree in which only the target directories exist.
fn run_missing_on_disk(rep: &Report, root: &Path, stage_desc: &mut Vec<Value>) -> u64 {
    let bare = root.join("bare");
    make_universe(&bare, &D, &[]);
    let chs = change_universe();
    let entries: Vec<&str> = D.iter().chain(P_EXTRA.iter()).copied().collect();
    let count = std::sync::atomic::AtomicU64::new(0);
    let tsets = subsets(&D, 1, 2);
    tsets.par_iter().for_each(|tset| {
        let nt = tset.len();
        let us = entry_sets(nt, &entries, 1);
        let is = entry_sets(nt, &entries, 1);
        for u in &us {
            for i in &is {
                let mut base: Vec<Tgt> = tset.iter().map(|p| Tgt::new(p)).collect();
                for (ti, e) in u {
                    base[*ti].uses.push(e.clone());
                }
                for (ti, e) in i {
                    base[*ti].ignores.push(e.clone());
                }
                let cfg = Cfg { targets: base };
                count.fetch_add(1, std::sync::atomic::Ordering::Relaxed);
                rep.eval(chs.len() as u64 + 4);
                for (sig, detail, extra) in check_cfg(&cfg, &bare, &chs, false) {
                    rep.violation(&format!("{}:path-missing-on-disk", sig), 7_000_000 + (nt as u64) * 100_000, json!({"config": cfg.to_value(), "input": extra, "universe": "bare"}), detail);
                }
            }
        }
    });
    let c = count.load(std::sync::atomic::Ordering::Relaxed);
    stage_desc.push(json!({"family": "uses/ignores paths that do not exist on disk (only target directories exist)", "configurations": c, "complete": true}));
    c
}

pub fn run(tier: &str, root: &Path) -> Value {
    setup(root);
    let chs = change_universe();
    let entries: Vec<&str> = D.iter().chain(P_EXTRA.iter()).copied().collect();
    let rep = Report::new();
    let stages: Vec<Bounds> = if tier == "thorough" {
        vec![
            Bounds { max_t: 3, k_u: 1, k_i: 1, perm_t: 3 },
            Bounds { max_t: 3, k_u: 2, k_i: 1, perm_t: 0 },
            Bounds { max_t: 3, k_u: 1, k_i: 2, perm_t: 0 },
            Bounds { max_t: 4, k_u: 1, k_i: 1, perm_t: 0 },
        ]
    } else {
        vec![Bounds { max_t: 3, k_u: 1, k_i: 1, perm_t: 2 }]
    };
    let mut stage_desc = vec![];
    let mut seen_stage_cfgs: u64 = 0;
    for b in &stages {
        let tsets = subsets(&D, 1, b.max_t);
        let count = std::sync::atomic::AtomicU64::new(0);
        tsets.par_iter().for_each(|tset| {
            let nt = tset.len();
            let us = entry_sets(nt, &entries, b.k_u);
            let is = entry_sets(nt, &entries, b.k_i);
            let perms = if nt <= b.perm_t { permutations(nt) } else { vec![(0..nt).collect()] };
            us.par_iter().for_each(|u| {
                for i in &is {
                    let mut base: Vec<Tgt> = tset.iter().map(|p| Tgt::new(p)).collect();
                    for (ti, e) in u {
                        base[*ti].uses.push(e.clone());
                    }
                    for (ti, e) in i {
                        base[*ti].ignores.push(e.clone());
                    }
                    for (pi, perm) in perms.iter().enumerate() {
                        let cfg = Cfg { targets: perm.iter().map(|&x| base[x].clone()).collect() };
                        count.fetch_add(1, std::sync::atomic::Ordering::Relaxed);
                        rep.eval(chs.len() as u64 + 4);
                        if pi == 0 && feature_nontrivial(&cfg, &chs) {
                            rep.nontrivial(1);
                        }
                        let rank = (nt as u64) * 1_000_000 + ((u.len() + i.len()) as u64) * 100_000 + pi as u64;
                        for (sig, detail, extra) in check_cfg(&cfg, root, &chs, true) {
                            rep.violation(&sig, rank, json!({"config": cfg.to_value(), "input": extra}), detail);
                        }
                    }
                }
            });
        });
        let c = count.load(std::sync::atomic::Ordering::Relaxed);
        seen_stage_cfgs += c;
        stage_desc.push(json!({"max_targets": b.max_t, "uses_entries": b.k_u, "ignores_entries": b.k_i, "all_orders_up_to": b.perm_t, "configurations": c, "complete": true}));
    }
    // shared entries: the same uses (or ignores) entry listed by two or by all targets, alone and
    // combined with one ignores (or uses) entry
    {
        let tsets = subsets(&D, 2, 3);
        let count = std::sync::atomic::AtomicU64::new(0);
        tsets.par_iter().for_each(|tset| {
            let nt = tset.len();
            let mut groups: Vec<Vec<usize>> = vec![(0..nt).collect()];
            if nt == 3 {
                groups.extend(vec![vec![0, 1], vec![0, 2], vec![1, 2]]);
            }
            // the extra entry of the other kind only for two-target sets (keeps the family small)
            let singles = if nt == 2 { entry_sets(nt, &entries, 1) } else { vec![vec![]] };
            for e in &entries {
                for g in &groups {
                    for shared_is_uses in [true, false] {
                        for other in &singles {
                            let mut base: Vec<Tgt> = tset.iter().map(|p| Tgt::new(p)).collect();
                            for &ti in g {
                                if shared_is_uses {
                                    base[ti].uses.push(e.to_string());
                                } else {
                                    base[ti].ignores.push(e.to_string());
                                }
                            }
                            for (ti, o) in other {
                                if shared_is_uses {
                                    base[*ti].ignores.push(o.clone());
                                } else {
                                    base[*ti].uses.push(o.clone());
                                }
                            }
                            let cfg = Cfg { targets: base };
                            count.fetch_add(1, std::sync::atomic::Ordering::Relaxed);
                            rep.eval(chs.len() as u64 + 4);
                            if feature_nontrivial(&cfg, &chs) {
                                rep.nontrivial(1);
                            }
                            for (sig, detail, extra) in check_cfg(&cfg, root, &chs, true) {
                                rep.violation(&sig, 9_000_000 + (nt as u64) * 100_000, json!({"config": cfg.to_value(), "input": extra}), detail);
                            }
                        }
                    }
                }
            }
        });
        let c = count.load(std::sync::atomic::Ordering::Relaxed);
        seen_stage_cfgs += c;
        stage_desc.push(json!({"family": "one entry shared by two or all targets (as uses or as ignores) x at most one entry of the other kind", "configurations": c, "complete": true}));
    }
    // pairs of entries of the same kind in ancestor relation (one equal to or inside the other),
    // owned by the same target or by different targets
    {
        let tsets = subsets(&D, 1, if tier == "thorough" { 3 } else { 2 });
        let count = std::sync::atomic::AtomicU64::new(0);
        let mut pairs: Vec<(&str, &str)> = vec![];
        for e1 in &entries {
            for e2 in &entries {
                if e1 != e2 && inside(e2, e1) {
                    pairs.push((e1, e2));
                }
            }
        }
        tsets.par_iter().for_each(|tset| {
            let nt = tset.len();
            for (outer, inner) in &pairs {
                for o1 in 0..nt {
                    for o2 in 0..nt {
                        for as_uses in [false, true] {
                            let mut base: Vec<Tgt> = tset.iter().map(|p| Tgt::new(p)).collect();
                            if as_uses {
                                base[o1].uses.push(outer.to_string());
                                base[o2].uses.push(inner.to_string());
                            } else {
                                base[o1].ignores.push(outer.to_string());
                                base[o2].ignores.push(inner.to_string());
                            }
                            let cfg = Cfg { targets: base };
                            count.fetch_add(1, std::sync::atomic::Ordering::Relaxed);
                            rep.eval(chs.len() as u64 + 4);
                            if feature_nontrivial(&cfg, &chs) {
                                rep.nontrivial(1);
                            }
                            for (sig, detail, extra) in check_cfg(&cfg, root, &chs, true) {
                                rep.violation(&sig, 9_500_000 + (nt as u64) * 100_000, json!({"config": cfg.to_value(), "input": extra}), detail);
                            }
                        }
                    }
                }
            }
        });
        let c = count.load(std::sync::atomic::Ordering::Relaxed);
        seen_stage_cfgs += c;
        stage_desc.push(json!({"family": "two uses (or two ignores) entries, one inside the other, on the same or on different targets", "configurations": c, "complete": true}));
    }
    seen_stage_cfgs += run_unicode(&rep, root, &mut stage_desc);
    seen_stage_cfgs += run_missing_on_disk(&rep, root, &mut stage_desc);
    // batching sweep on a fixed feature set of configurations
    let feature_cfgs = batching_cfgs();
    feature_cfgs.par_iter().enumerate().for_each(|(k, cfg)| {
        for (sig, detail, extra) in check_batching(cfg, root, &chs, &rep) {
            rep.violation(&sig, 50_000_000 + k as u64, json!({"config": cfg.to_value(), "input": extra}), detail);
        }
    });
    rep.extra("stages", json!(stage_desc));
    rep.extra("configurations", json!(seen_stage_cfgs));
    rep.extra("batching_configurations", json!(feature_cfgs.len()));
    rep.sample(json!({"config": feature_cfgs[3].to_value(), "change": "a/c/f", "oracle_must_may": [oracle(&feature_cfgs[3], "a/c/f", false).0, oracle(&feature_cfgs[3], "a/c/f", false).1]}));
    rep.sample(json!({"config": feature_cfgs[7].to_value(), "change": "lib/f", "oracle_must_may": [oracle(&feature_cfgs[7], "lib/f", false).0, oracle(&feature_cfgs[7], "lib/f", false).1]}));
    rep.finish(
        "configurations: every non-empty target set T of D (|T|<=max_targets) x every placement of <=k_u uses and <=k_i ignores entries drawn from P on any target (x every declaration order up to the stated size); per configuration: each of the 25 changes (21 below configured paths, 4 equal to one) alone (summary vs recursive oracle, sortedness, summary == union of non-ignored breakdown entries), then the empty list, all changes, reversed, and every change duplicated (must equal the union of the single-change results); batching: 121-element lists with one change at every position 0..120 and two changes at every pair of chunk-boundary positions, each twice, plus cyclic lists of 50..333 changes; evaluations = analyze calls; non-trivial = distinct configurations where some change must flag a target and two configured names are in a string-prefix relation",
        true,
        json!({"dir_universe": D, "extra_entries": P_EXTRA, "changes": chs.len()}),
    )
}

pub fn batching_cfgs() -> Vec<Cfg> {
    // one configuration per feature combination: nesting depth, prefix siblings, uses kinds, ignores kinds
    let mut out = vec![];
    let tsets: Vec<Vec<&str>> = vec![
        vec!["a"],
        vec!["a", "ab"],
        vec!["a", "a/c"],
        vec!["a", "a/c", "a/c/e"],
        vec!["a/c", "a/cd", "b"],
        vec!["a", "b"],
    ];
    let uses: Vec<Option<(usize, &str)>> = vec![None, Some((0, "lib")), Some((1, "lib/x")), Some((1, "b/f")), Some((0, "x.txt"))];
    let ignores: Vec<Option<(usize, &str)>> = vec![None, Some((0, "a/f")), Some((1, "a/c/gen"))];
    for t in &tsets {
        for u in &uses {
            for i in &ignores {
                let mut ts: Vec<Tgt> = t.iter().map(|p| Tgt::new(p)).collect();
                if let Some((k, e)) = u {
                    let k = (*k).min(ts.len() - 1);
                    ts[k].uses.push(e.to_string());
                }
                if let Some((k, e)) = i {
                    let k = (*k).min(ts.len() - 1);
                    ts[k].ignores.push(e.to_string());
                }
                out.push(Cfg { targets: ts });
            }
        }
    }
    out.truncate(60);
    out
}

fn cfg_of(case: &Value) -> Cfg {
    Cfg::from_value(&case["config"])
}

pub fn replay(case: &Value, root: &Path) -> Vec<(String, String)> {
    setup(root);
    let cfg = Cfg::from_value(&case["config"]);
    if case["universe"] == "bare" {
        let bare = root.join("bare");
        make_universe(&bare, &D, &[]);
        return check_cfg(&cfg_of(case), &bare, &change_universe(), false).into_iter().map(|(s, d, _)| (s, d)).collect();
    }
    let chs = if case["universe"] == "unicode" {
        make_universe(root, &["caf\u{e9}", "caf\u{e9}s", "caf\u{e9}/\u{fc}", "b", "lib\u{e9}", "lib\u{e9}s", "caf"], &[]);
        unicode_changes()
    } else {
        change_universe()
    };
    let rep = Report::new();
    let mut d = check_cfg(&cfg, root, &chs, true);
    if case["input"].get("batch").is_some() {
        d.extend(check_batching(&cfg, root, &chs, &rep));
    }
    d.into_iter().map(|(s, d, _)| (s, d)).collect()
}
