//! The executable every generated command file resolves to (the command files are symlinks to
//! this binary, so argv[0] is exactly the path monorail resolved).
//!
//! * controlled mode (`VHELPER_CTL=<unix socket>`): announce {argv, cwd, pid}, then obey a line
//!   protocol - `out <hex>`, `err <hex>`, `sleep <ms>`, `closeout`, `closeerr`, `spawn <file> <hex argv>`,
//!   `exit <code>` -
//!   acknowledging each step with `ok`. The child makes no progress the controller did not order.
//! * trace mode (`VHELPER_TRACE=<dir>`): write `<dir>/<pid>.json` (argv, cwd, monotonic start),
//!   play `<VHELPER_SCRIPTS>/<sha256(cwd \0 argv0)>` if present (same line syntax), append the end
//!   record, exit with the scripted code (default 0).
//! * neither: exit 0.

use sha2::Digest;
use std::io::{BufRead, BufReader, Write};

fn mono_ns() -> u128 {
    let mut ts = libc::timespec { tv_sec: 0, tv_nsec: 0 };
    unsafe { libc::clock_gettime(libc::CLOCK_MONOTONIC, &mut ts) };
    (ts.tv_sec as u128) * 1_000_000_000 + ts.tv_nsec as u128
}

fn unhex(s: &str) -> Vec<u8> {
    (0..s.len() / 2)
        .filter_map(|i| u8::from_str_radix(&s[2 * i..2 * i + 2], 16).ok())
        .collect()
}

fn json_str(s: &str) -> String {
    let mut o = String::from("\"");
    for c in s.chars() {
        match c {
            '"' => o.push_str("\\\""),
            '\\' => o.push_str("\\\\"),
            '\n' => o.push_str("\\n"),
            '\r' => o.push_str("\\r"),
            '\t' => o.push_str("\\t"),
            c if (c as u32) < 0x20 => o.push_str(&format!("\\u{:04x}", c as u32)),
            c => o.push(c),
        }
    }
    o.push('"');
    o
}

struct Streams {
    out: Option<std::io::Stdout>,
    err: Option<std::io::Stderr>,
}

/// Executes one protocol line; returns Some(code) on `exit`.
fn step(line: &str, st: &mut Streams) -> Option<i32> {
    let mut it = line.trim_end().splitn(2, ' ');
    let cmd = it.next().unwrap_or("");
    let arg = it.next().unwrap_or("");
    match cmd {
        "out" => {
            if let Some(o) = st.out.as_mut() {
                let _ = o.write_all(&unhex(arg));
                let _ = o.flush();
            }
        }
        "err" => {
            if let Some(e) = st.err.as_mut() {
                let _ = e.write_all(&unhex(arg));
                let _ = e.flush();
            }
        }
        "outrep" | "errrep" => {
            // "<count> <hex>" : the bytes repeated count times (large volumes without huge lines)
            let mut p = arg.splitn(2, ' ');
            let n: usize = p.next().unwrap_or("0").parse().unwrap_or(0);
            let b = unhex(p.next().unwrap_or(""));
            let mut buf = Vec::with_capacity(n * b.len());
            for _ in 0..n {
                buf.extend_from_slice(&b);
            }
            if cmd == "outrep" {
                if let Some(o) = st.out.as_mut() {
                    let _ = o.write_all(&buf);
                    let _ = o.flush();
                }
            } else if let Some(e) = st.err.as_mut() {
                let _ = e.write_all(&buf);
                let _ = e.flush();
            }
        }
        "sleep" => {
            let ms: u64 = arg.parse().unwrap_or(0);
            std::thread::sleep(std::time::Duration::from_millis(ms));
        }
        "closeout" => unsafe {
            st.out = None;
            libc::close(1);
        },
        "closeerr" => unsafe {
            st.err = None;
            libc::close(2);
        },
        "kill" => unsafe {
            // die by a signal instead of exiting (no exit code)
            // the Rust runtime installs handlers of its own (SIGSEGV/SIGBUS for stack overflow
            // detection, SIGPIPE ignored): restore the default action so that the signal really kills
            let signo: i32 = arg.parse().unwrap_or(9);
            libc::signal(libc::SIGPIPE, libc::SIG_DFL);
            libc::signal(signo, libc::SIG_DFL);
            libc::kill(libc::getpid(), signo);
            std::thread::sleep(std::time::Duration::from_secs(5));
        },
        "spawn" => {
            // "<result file> <hex of NUL-separated argv>": run a nested process to completion with the
            // environment this executable inherited from monorail (minus the harness's own control
            // variables, so that the nested process runs free) and record how it ended
            let mut p = arg.splitn(2, ' ');
            let outfile = p.next().unwrap_or("").to_string();
            let bytes = unhex(p.next().unwrap_or(""));
            let parts: Vec<String> = bytes
                .split(|b| *b == 0)
                .map(|s| String::from_utf8_lossy(s).into_owned())
                .collect();
            if let Some((prog, rest)) = parts.split_first() {
                let mut cmd = std::process::Command::new(prog);
                cmd.args(rest);
                for (k, _) in std::env::vars() {
                    if k.starts_with("VHELPER_") || k.starts_with("MONORAIL_VERIF_") {
                        cmd.env_remove(k);
                    }
                }
                cmd.stdin(std::process::Stdio::null());
                let hex = |b: &[u8]| b.iter().map(|x| format!("{:02x}", x)).collect::<String>();
                let body = match cmd.output() {
                    Ok(o) => format!(
                        "{{\"code\":{},\"out\":\"{}\",\"err\":\"{}\"}}",
                        o.status.code().unwrap_or(-1),
                        hex(&o.stdout),
                        hex(&o.stderr)
                    ),
                    Err(e) => format!("{{\"code\":-2,\"out\":\"\",\"err\":\"{}\"}}", hex(e.to_string().as_bytes())),
                };
                let _ = std::fs::write(&outfile, body);
            }
        }
        "outenv" => {
            // print the environment this executable was given (sorted; the harness's own control variables
            // left out) to stdout: whatever a run hands to its children shows up in their stored log
            let mut vars: Vec<(String, String)> = std::env::vars()
                .filter(|(k, _)| !(k.starts_with("VHELPER_") || k.starts_with("MONORAIL_VERIF_") || k.starts_with("MRV_") || k == "LD_PRELOAD"))
                .collect();
            vars.sort();
            let mut text = String::from("environment:\n");
            for (k, v) in vars {
                text.push_str(&format!("  {}={}\n", k, v));
            }
            if let Some(o) = st.out.as_mut() {
                let _ = o.write_all(text.as_bytes());
                let _ = o.flush();
            }
        }
        "chmod" => {
            // "<octal mode> <hex path>": change the permission bits of a file (a bootstrap step that
            // makes a later command executable, or a clean-up step that takes the bit away)
            let mut p = arg.splitn(2, ' ');
            let mode = u32::from_str_radix(p.next().unwrap_or("644"), 8).unwrap_or(0o644);
            let path = String::from_utf8_lossy(&unhex(p.next().unwrap_or(""))).into_owned();
            use std::os::unix::fs::PermissionsExt;
            let _ = std::fs::set_permissions(&path, std::fs::Permissions::from_mode(mode));
        }
        "bg" => {
            // "<ms>": leave a background process behind that keeps this process's stdout and stderr
            // open for that long (a daemon or `sleep 3 &` started without redirecting its output)
            let ms: u64 = arg.parse().unwrap_or(0);
            let _ = std::process::Command::new("sleep")
                .arg(format!("{}.{:03}", ms / 1000, ms % 1000))
                .stdin(std::process::Stdio::null())
                .spawn();
        }
        "exit" => return Some(arg.parse().unwrap_or(0)),
        _ => {}
    }
    None
}

fn main() {
    // a dead reader (monorail killed) must not kill us with SIGPIPE before we can exit cleanly
    unsafe { libc::signal(libc::SIGPIPE, libc::SIG_IGN) };
    let argv: Vec<String> = std::env::args().collect();
    let cwd = std::env::current_dir()
        .map(|p| p.display().to_string())
        .unwrap_or_default();
    let pid = std::process::id();
    let argv_json = format!(
        "[{}]",
        argv.iter().map(|a| json_str(a)).collect::<Vec<_>>().join(",")
    );
    let mut st = Streams {
        out: Some(std::io::stdout()),
        err: Some(std::io::stderr()),
    };
    if let Ok(ctl) = std::env::var("VHELPER_CTL") {
        let mut sock = match std::os::unix::net::UnixStream::connect(&ctl) {
            Ok(s) => s,
            Err(_) => std::process::exit(97),
        };
        let hello = format!(
            "{{\"kind\":\"child\",\"pid\":{},\"argv\":{},\"cwd\":{},\"start_ns\":{}}}\n",
            pid,
            argv_json,
            json_str(&cwd),
            mono_ns()
        );
        if sock.write_all(hello.as_bytes()).is_err() {
            std::process::exit(97);
        }
        let mut rd = BufReader::new(sock.try_clone().expect("clone"));
        let mut line = String::new();
        loop {
            line.clear();
            match rd.read_line(&mut line) {
                Ok(0) | Err(_) => std::process::exit(98), // controller went away
                Ok(_) => {}
            }
            let r = step(&line, &mut st);
            if let Some(code) = r {
                let _ = sock.write_all(b"bye\n");
                std::process::exit(code);
            }
            let _ = sock.write_all(b"ok\n");
        }
    }
    if let Ok(dir) = std::env::var("VHELPER_TRACE") {
        let path = format!("{}/{}.json", dir, pid);
        let start = mono_ns();
        let mut code = 0;
        let mut f = std::fs::OpenOptions::new()
            .create(true)
            .append(true)
            .open(&path)
            .expect("trace file");
        let _ = writeln!(
            f,
            "{{\"event\":\"start\",\"pid\":{},\"argv\":{},\"cwd\":{},\"t\":{}}}",
            pid,
            argv_json,
            json_str(&cwd),
            start
        );
        let _ = f.flush();
        if let Ok(sdir) = std::env::var("VHELPER_SCRIPTS") {
            let mut h = sha2::Sha256::new();
            h.update(cwd.as_bytes());
            h.update([0u8]);
            h.update(argv[0].as_bytes());
            let key = format!("{:x}", h.finalize());
            // per-invocation scripts: `<key>.count` counts the invocations of this (cwd, argv0);
            // the n-th invocation plays `<key>.<n>` when it exists, otherwise `<key>`
            let count_path = format!("{}/{}.count", sdir, key);
            let n: u32 = std::fs::read_to_string(&count_path).ok().and_then(|t| t.trim().parse().ok()).unwrap_or(0) + 1;
            let _ = std::fs::write(&count_path, n.to_string());
            let nth = format!("{}/{}.{}", sdir, key, n);
            let script_path = if std::path::Path::new(&nth).exists() { nth } else { format!("{}/{}", sdir, key) };
            if let Ok(text) = std::fs::read_to_string(script_path) {
                for line in text.lines() {
                    if let Some(c) = step(line, &mut st) {
                        code = c;
                        break;
                    }
                }
            }
        }
        let _ = writeln!(
            f,
            "{{\"event\":\"end\",\"pid\":{},\"t\":{},\"code\":{}}}",
            pid,
            mono_ns(),
            code
        );
        std::process::exit(code);
    }
    std::process::exit(0);
}
