//! vx <property> [--tier quick|thorough] [--replay <file>]  - in-process exhaustive explorers.
//! Prints one JSON object on the last line of stdout.
use mrverif::*;
use serde_json::{json, Value};

/// Runs `prop` as N child processes (one per core) and merges their reports: counts are summed,
/// `*_set` extras are unioned, violations are concatenated and re-pruned by rank.
fn sharded(exe: &str, prop: &str, tier: &str) -> Value {
    let n = std::thread::available_parallelism().map(|x| x.get()).unwrap_or(8).min(16);
    let children: Vec<_> = (0..n)
        .map(|k| {
            std::process::Command::new(exe)
                .args([prop, "--tier", tier, "--shard", &format!("{}/{}", k, n)])
                .stdout(std::process::Stdio::piped())
                .spawn()
                .expect("spawn shard")
        })
        .collect();
    let mut merged: Option<Value> = None;
    for c in children {
        let out = c.wait_with_output().expect("shard output");
        if !out.status.success() {
            eprintln!("shard failed: {:?}", out.status);
            std::process::exit(2);
        }
        let text = String::from_utf8_lossy(&out.stdout);
        let v: Value = serde_json::from_str(text.trim().lines().last().unwrap_or("")).expect("shard json");
        merged = Some(match merged {
            None => v,
            Some(mut m) => {
                for k in ["evaluations", "distinct_nontrivial", "violation_count"] {
                    m[k] = json!(m[k].as_u64().unwrap_or(0) + v[k].as_u64().unwrap_or(0));
                }
                for section in ["by_sig", "counters"] {
                    if let Some(o) = v[section].as_object() {
                        for (k, x) in o {
                            let cur = m[section][k].as_u64().unwrap_or(0);
                            m[section][k] = json!(cur + x.as_u64().unwrap_or(0));
                        }
                    }
                }
                if let Some(o) = v["extra"].as_object() {
                    for (k, x) in o {
                        if k.ends_with("_set") {
                            let mut set: std::collections::BTreeSet<String> = serde_json::from_value(m["extra"][k].clone()).unwrap_or_default();
                            let add: Vec<String> = serde_json::from_value(x.clone()).unwrap_or_default();
                            set.extend(add);
                            m["extra"][k] = json!(set);
                        } else if k.ends_with("_total") || k.ends_with("_list") {
                            // identical in every shard
                        } else if let Some(a) = x.as_u64() {
                            m["extra"][k] = json!(m["extra"][k].as_u64().unwrap_or(0) + a);
                        }
                    }
                }
                let mut vs = m["violations"].as_array().cloned().unwrap_or_default();
                vs.extend(v["violations"].as_array().cloned().unwrap_or_default());
                vs.sort_by_key(|x| (x["sig"].as_str().unwrap_or("").to_string(), x["rank"].as_u64().unwrap_or(0)));
                let mut kept: Vec<Value> = vec![];
                let mut per: std::collections::BTreeMap<String, usize> = Default::default();
                for x in vs {
                    let c = per.entry(x["sig"].as_str().unwrap_or("").to_string()).or_insert(0);
                    if *c < 5 {
                        *c += 1;
                        kept.push(x);
                    }
                }
                m["violations"] = json!(kept);
                m
            }
        });
    }
    let mut m = merged.unwrap();
    let sets: Vec<String> = m["extra"].as_object().map(|o| o.keys().filter(|k| k.ends_with("_set")).cloned().collect()).unwrap_or_default();
    for k in sets {
        let n = m["extra"][&k].as_array().map(|a| a.len()).unwrap_or(0);
        m["extra"][format!("{}_count", k)] = json!(n);
        m["extra"].as_object_mut().unwrap().remove(&k);
    }
    m["extra"]["shards"] = json!(n);
    m
}

fn main() {
    let args: Vec<String> = std::env::args().collect();
    if args.len() < 2 {
        eprintln!("usage: vx <c01|c03|c09|c10|c08|c17|c18> [--tier t] [--replay file]");
        std::process::exit(2);
    }
    if args[1] == "zcat" {
        // independent decode of a zstd file to stdout (used by the process-level explorers)
        use std::io::Write;
        let f = std::fs::File::open(&args[2]).unwrap_or_else(|e| {
            eprintln!("open: {}", e);
            std::process::exit(1)
        });
        match zstd::stream::decode_all(f) {
            Ok(b) => {
                std::io::stdout().write_all(&b).unwrap();
                std::process::exit(0)
            }
            Err(e) => {
                eprintln!("decode: {}", e);
                std::process::exit(1)
            }
        }
    }
    if args[1] == "groups" {
        // vx groups <config.json> <work_path> [visible targets...] : the groups the code itself
        // computes for a visible set (hook index_groups), used by the schedule driver for pacing
        let cfg = std::fs::read_to_string(&args[2]).expect("config");
        let vis: Vec<String> = args[4..].to_vec();
        match monorail::verif::index_groups(&cfg, &vis, std::path::Path::new(&args[3])) {
            Ok(g) => println!("{}", json!({"groups": g})),
            Err(e) => println!("{}", json!({"error": e})),
        }
        return;
    }
    let prop = args[1].to_lowercase();
    let mut tier = std::env::var("VERIF_TIER").unwrap_or_else(|_| "quick".into());
    let mut replay: Option<String> = None;
    let mut shard: Option<(usize, usize)> = None;
    let mut i = 2;
    while i < args.len() {
        match args[i].as_str() {
            "--tier" => {
                tier = args[i + 1].clone();
                i += 2;
            }
            "--replay" => {
                replay = Some(args[i + 1].clone());
                i += 2;
            }
            "--shard" => {
                let (a, b) = args[i + 1].split_once('/').expect("--shard k/n");
                shard = Some((a.parse().unwrap(), b.parse().unwrap()));
                i += 2;
            }
            _ => i += 1,
        }
    }
    // panics inside the code under test are caught per case; keep stderr quiet
    std::panic::set_hook(Box::new(|_| {}));
    let root = scratch_root();
    let _ = std::fs::remove_dir_all(&root);
    std::fs::create_dir_all(&root).unwrap();
    let out: Value = if let Some(f) = replay {
        let v: Value = serde_json::from_str(&std::fs::read_to_string(&f).expect("replay file")).expect("json");
        let case = &v["case"];
        let defects: Vec<(String, String)> = match prop.as_str() {
            "c10" => c10::replay(case, &root).into_iter().collect(),
            "c03" | "c09" => {
                let (_p, d) = c03::replay(case, &root);
                d.into_iter().collect()
            }
            "c01" => c01::replay(case, &root),
            "c08" => c08::replay(case, &root),
            "c17" | "c18" => c17::replay(&prop, case, &root),
            _ => {
                eprintln!("unknown property");
                std::process::exit(2)
            }
        };
        json!({"replay": true, "defects": defects.iter().map(|(s, d)| json!({"sig": s, "detail": d})).collect::<Vec<_>>()})
    } else {
        match prop.as_str() {
            "c10" => c10::run(&tier, &root),
            "c03" => c03::run(c03::Prop::C03, &tier, &root),
            "c09" => c03::run(c03::Prop::C09, &tier, &root),
            "c01" => c01::run(&tier, &root),
            "c08" => match shard {
                Some((k, n)) => {
                    // one shard: sequential inside this process (threads contend on mmap)
                    rayon::ThreadPoolBuilder::new().num_threads(1).build_global().ok();
                    c08::run(&tier, &root, k, n)
                }
                None => sharded(&args[0], "c08", &tier),
            },
            "c17" => c17::run("c17", &tier, &root),
            "c18" => c17::run("c18", &tier, &root),
            _ => {
                eprintln!("unknown property");
                std::process::exit(2)
            }
        }
    };
    let _ = std::fs::remove_dir_all(&root);
    println!("{}", out);
}
