//! vx <property> [--tier quick|thorough] [--replay <file>]  - in-process exhaustive explorers.
//! Prints one JSON object on the last line of stdout.
use mrverif::*;
use serde_json::{json, Value};

fn main() {
    let args: Vec<String> = std::env::args().collect();
    if args.len() < 2 {
        eprintln!("usage: vx <c01|c03|c09|c10|c08|c17|c18> [--tier t] [--replay file]");
        std::process::exit(2);
    }
    let prop = args[1].to_lowercase();
    let mut tier = std::env::var("VERIF_TIER").unwrap_or_else(|_| "quick".into());
    let mut replay: Option<String> = None;
    let mut i = 2;
    while i < args.len() {
        match args[i].as_str() {
            "--tier" => {
                tier = args[i + 1].clone();
                i += 2;
            }
            "--replay" => {
                replay = Some(args[i + 1].clone());
                i += 2;
            }
            _ => i += 1,
        }
    }
    // panics inside the code under test are caught per case; keep stderr quiet
    std::panic::set_hook(Box::new(|_| {}));
    let root = scratch_root();
    let _ = std::fs::remove_dir_all(&root);
    std::fs::create_dir_all(&root).unwrap();
    let out: Value = if let Some(f) = replay {
        let v: Value = serde_json::from_str(&std::fs::read_to_string(&f).expect("replay file")).expect("json");
        let case = &v["case"];
        let defects: Vec<(String, String)> = match prop.as_str() {
            "c10" => c10::replay(case, &root).into_iter().collect(),
            "c03" | "c09" => {
                let (_p, d) = c03::replay(case, &root);
                d.into_iter().collect()
            }
            "c01" => c01::replay(case, &root),
            "c08" => c08::replay(case, &root),
            "c17" | "c18" => c17::replay(&prop, case, &root),
            _ => {
                eprintln!("unknown property");
                std::process::exit(2)
            }
        };
        json!({"replay": true, "defects": defects.iter().map(|(s, d)| json!({"sig": s, "detail": d})).collect::<Vec<_>>()})
    } else {
        match prop.as_str() {
            "c10" => c10::run(&tier, &root),
            "c03" => c03::run(c03::Prop::C03, &tier, &root),
            "c09" => c03::run(c03::Prop::C09, &tier, &root),
            "c01" => c01::run(&tier, &root),
            "c08" => c08::run(&tier, &root),
            "c17" => c17::run("c17", &tier, &root),
            "c18" => c17::run("c18", &tier, &root),
            _ => {
                eprintln!("unknown property");
                std::process::exit(2)
            }
        }
    };
    let _ = std::fs::remove_dir_all(&root);
    println!("{}", out);
}
