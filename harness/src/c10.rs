//! C10 - the dependency relation is exactly what the configuration declares.
//! Enumerates target sets x uses entries x declaration orders, calls the real `Index::new`
//! through `verif::index_edges`, compares with `dep` (DESIGN.md section 3).

use crate::*;
use rayon::prelude::*;
use serde_json::{json, Value};
use std::collections::BTreeSet;
use std::path::Path;

// "a-b" and "a.c": siblings of "a" whose next byte sorts before '/', i.e. between "a" and "a/..." in byte order
// "x.txt": a target whose path is a single regular file, not a directory
// "cafe\u{301}": the decomposed spelling (combining accent), "z\u{200d}w": a zero-width joiner inside the name
pub const DIRS: [&str; 15] = ["a", "ab", "a/c", "a/cd", "a/c/e", "b", "a/c/e/g", "abc", "caf\u{e9}", "caf\u{e9}s", "a-b", "a.c", "x.txt", "cafe\u{301}", "z\u{200d}w"];
// "a/", "a/c/": a directory named with a trailing separator (as shell completion leaves it) is that directory
pub const EXTRA: [&str; 14] = [
    "lib", "lib2", "lib/x", "a/f", "a/c/f", "a/c/gen", "ab/f", "b/f", "a/c/e/h", "li", "caf\u{e9}/f", "caf", "a/", "a/c/",
];

pub fn setup(root: &Path) {
    make_universe(
        root,
        &[
            "a", "ab", "a/c", "a/cd", "a/c/e", "b", "a/c/e/g", "abc", "lib", "lib2", "a/c/gen",
            "lib/x", "caf\u{e9}", "caf\u{e9}s", "a-b", "a.c", "cafe\u{301}", "z\u{200d}w",
        ],
        &["x.txt", "a/c/e/h"],
    );
}

const JUNK: &str = "digraph OLD {\n7 [label=\"stale\"];\n7 -> 7;\n7 -> 7;\n7 -> 7;\n7 -> 7;\n7 -> 7;\n7 -> 7;\n7 -> 7;\n7 -> 7;\n7 -> 7;\n7 -> 7;\n7 -> 7;\n7 -> 7;\n7 -> 7;\n7 -> 7;\n7 -> 7;\n7 -> 7;\n7 -> 7;\n7 -> 7;\n7 -> 7;\n7 -> 7;\n7 -> 7;\n7 -> 7;\n7 -> 7;\n7 -> 7;\n7 -> 7;\n7 -> 7;\n7 -> 7;\n7 -> 7;\n7 -> 7;\n7 -> 7;\n7 -> 7;\n7 -> 7;\n7 -> 7;\n7 -> 7;\n7 -> 7;\n7 -> 7;\n7 -> 7;\n7 -> 7;\n7 -> 7;\n7 -> 7;\n7 -> 7;\n7 -> 7;\n7 -> 7;\n7 -> 7;\n7 -> 7;\n7 -> 7;\n7 -> 7;\n7 -> 7;\n7 -> 7;\n7 -> 7;\n7 -> 7;\n7 -> 7;\n7 -> 7;\n7 -> 7;\n7 -> 7;\n7 -> 7;\n7 -> 7;\n7 -> 7;\n7 -> 7;\n7 -> 7;\n}\n";

fn scratch_file(root: &Path) -> std::path::PathBuf {
    root.join(format!(
        ".dot-{}",
        rayon::current_thread_index().unwrap_or(9999)
    ))
}

/// Returns (signature, detail) of the first defect, or None.
pub fn check_cfg(cfg: &Cfg, root: &Path) -> Option<(String, String)> {
    let js = cfg.to_json();
    let sf = scratch_file(root);
    // the output file already exists and is longer than anything rendered here: whatever is left of
    // it after rendering would show up as nodes/edges that the configuration does not declare
    let _ = std::fs::write(&sf, JUNK.as_bytes());
    let res = guarded(|| monorail::verif::index_edges(&js, root, &sf));
    let edges = match res {
        Err(p) => return Some(("panic".into(), p)),
        Ok(Err(e)) => return Some(("error".into(), e)),
        Ok(Ok(e)) => e,
    };
    let mut got: BTreeSet<(String, String)> = BTreeSet::new();
    for e in &edges {
        if !got.insert(e.clone()) {
            return Some(("duplicate-edge".into(), format!("{:?}", e)));
        }
    }
    let mut want: BTreeSet<(String, String)> = BTreeSet::new();
    let n = cfg.targets.len();
    for t in 0..n {
        for u in 0..n {
            if cfg.dep(t, u) {
                want.insert((cfg.targets[t].path.clone(), cfg.targets[u].path.clone()));
            }
        }
    }
    if got == want {
        return None;
    }
    let extra: Vec<_> = got.difference(&want).cloned().collect();
    let missing: Vec<_> = want.difference(&got).cloned().collect();
    let detail = format!("extra edges {:?}, missing edges {:?}", extra, missing);
    if !missing.is_empty() {
        return Some(("missing-edge".into(), detail));
    }
    // classify extras: is each explained by raw string-prefix matching?
    let raw = |t: &str, u: &str| -> bool {
        let tt = cfg.targets.iter().find(|x| x.path == t).unwrap();
        let pre = |x: &str| x.starts_with(u) && !inside(x, u);
        pre(&tt.path) || tt.uses.iter().any(|s| pre(s))
    };
    if extra.iter().all(|(t, u)| raw(t, u)) {
        Some(("raw-prefix-edge".into(), detail))
    } else {
        Some(("extra-edge".into(), detail))
    }
}

pub fn is_nontrivial(cfg: &Cfg) -> bool {
    // at least one dependency and at least one string-prefix-but-not-component relation or nesting
    let n = cfg.targets.len();
    let mut dep = false;
    for t in 0..n {
        for u in 0..n {
            dep |= cfg.dep(t, u);
        }
    }
    dep
}

pub struct Bounds {
    pub max_t: usize,
    pub max_uses: usize,
    pub perm_t: usize,
    pub ign_t: usize,
}

pub fn enumerate(b: &Bounds) -> Vec<(u64, Cfg)> {
    let entries: Vec<&str> = DIRS.iter().chain(EXTRA.iter()).copied().collect();
    let mut out = vec![];
    for tset in subsets(&DIRS, 1, b.max_t) {
        let nt = tset.len();
        // slots: (target index, entry)
        let mut slots = vec![];
        for ti in 0..nt {
            for e in &entries {
                slots.push((ti, *e));
            }
        }
        let mut use_sets: Vec<Vec<(usize, &str)>> = vec![vec![]];
        if b.max_uses >= 1 {
            for s in &slots {
                use_sets.push(vec![*s]);
            }
        }
        if b.max_uses >= 2 {
            for i in 0..slots.len() {
                for j in 0..slots.len() {
                    if i == j {
                        continue;
                    }
                    // same target: both orders matter (uses list order); different targets: i<j only
                    if slots[i].0 != slots[j].0 && i > j {
                        continue;
                    }
                    use_sets.push(vec![slots[i], slots[j]]);
                }
            }
        }
        // two entries of ONE target in ancestor relation (one equal to a prefix of the other), both orders:
        // a redundant, overlapping `uses` list
        for ti in 0..nt {
            for e1 in &entries {
                for e2 in &entries {
                    if e1 != e2 && inside(e2, e1) {
                        use_sets.push(vec![(ti, *e1), (ti, *e2)]);
                        use_sets.push(vec![(ti, *e2), (ti, *e1)]);
                    }
                }
            }
        }
        // the same entry listed by two or by all targets (shared boilerplate `uses` lists)
        if nt >= 2 {
            for e in &entries {
                let all: Vec<(usize, &str)> = (0..nt).map(|ti| (ti, *e)).collect();
                use_sets.push(all);
                if nt >= 3 {
                    for i in 0..nt {
                        for j in (i + 1)..nt {
                            use_sets.push(vec![(i, *e), (j, *e)]);
                        }
                    }
                }
            }
        }
        // `ignores` concern change detection only: the entry one target uses is ignored (itself, or the
        // directory above it) by its owner, by the user itself or by a bystander
        let mut ign_sets: Vec<((usize, &str), (usize, String))> = vec![];
        if nt <= b.ign_t {
            for s in &slots {
                for ui in 0..nt {
                    let parent = match s.1.rfind('/') {
                        Some(i) => s.1[..i].to_string(),
                        None => s.1.to_string(),
                    };
                    ign_sets.push((*s, (ui, s.1.to_string())));
                    if parent != s.1 {
                        ign_sets.push((*s, (ui, parent)));
                    }
                }
            }
        }
        let perms = if nt <= b.perm_t {
            permutations(nt)
        } else {
            vec![(0..nt).collect()]
        };
        for us in &use_sets {
            let mut base: Vec<Tgt> = tset.iter().map(|p| Tgt::new(p)).collect();
            for (ti, e) in us {
                base[*ti].uses.push(e.to_string());
            }
            for (pi, perm) in perms.iter().enumerate() {
                let targets: Vec<Tgt> = perm.iter().map(|&i| base[i].clone()).collect();
                let rank = (nt as u64) * 100_000 + (us.len() as u64) * 10_000 + pi as u64;
                out.push((rank, Cfg { targets }));
            }
        }
        for ((ti, e), (ui, g)) in &ign_sets {
            let mut base: Vec<Tgt> = tset.iter().map(|p| Tgt::new(p)).collect();
            base[*ti].uses.push(e.to_string());
            base[*ui].ignores.push(g.clone());
            let rank = (nt as u64) * 100_000 + 15_000;
            out.push((rank, Cfg { targets: base.clone() }));
            if nt >= 2 {
                base.reverse();
                out.push((rank + 1, Cfg { targets: base }));
            }
        }
    }
    out
}

pub fn run(tier: &str, root: &Path) -> Value {
    setup(root);
    let b = if tier == "thorough" {
        Bounds {
            max_t: 5,
            max_uses: 2,
            perm_t: 3,
            ign_t: 3,
        }
    } else {
        Bounds {
            max_t: 4,
            max_uses: 1,
            perm_t: 3,
            ign_t: 2,
        }
    };
    let cases = enumerate(&b);
    let rep = Report::new();
    cases.par_iter().for_each(|(rank, cfg)| {
        rep.eval(1);
        if is_nontrivial(cfg) {
            rep.nontrivial(1);
        }
        if let Some((sig, detail)) = check_cfg(cfg, root) {
            rep.violation(&sig, *rank, json!({"config": cfg.to_value()}), detail);
        }
    });
    for (_, cfg) in cases.iter().filter(|(_, c)| is_nontrivial(c)).step_by(cases.len() / 4 + 1) {
        rep.sample(json!({"config": cfg.to_value(), "oracle_edges": cfg.adj()}));
    }
    rep.finish(
        "every target set T of D10 (|T|<=max_t) x every placement of <=max_uses `uses` entries from P10 on any target, plus every pair of nested entries on one target (both orders), plus every single entry shared by two or by all targets, plus (|T|<=ign_t) every single entry combined with an `ignores` entry (the entry or its parent directory) on any target, x every declaration order for |T|<=perm_t; case = one configuration, all distinct; non-trivial = oracle relation has at least one dependency",
        true,
        json!({"max_targets": b.max_t, "max_uses_entries": b.max_uses, "all_orders_up_to_targets": b.perm_t, "ignores_up_to_targets": b.ign_t,
               "dir_universe": DIRS, "extra_entries": EXTRA}),
    )
}

pub fn replay(case: &Value, root: &Path) -> Option<(String, String)> {
    setup(root);
    check_cfg(&Cfg::from_value(&case["config"]), root)
}
