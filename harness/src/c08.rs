//! placeholder, filled in below
use serde_json::{json, Value};
use std::path::Path;
pub fn run(_tier: &str, _root: &Path) -> Value { json!({}) }
pub fn replay(_case: &Value, _root: &Path) -> Vec<(String, String)> { vec![] }
