//! C08 - stored logs are byte-exact and isolated per task (in-process core).
//! Real `process_reader` + real `Compressor` threads through `verif::capture`, on a
//! current_thread runtime with a paused clock and a fixed `select!` seed: the scripted writers
//! are the only source of wake-ups, so "a pause that straddles the flush tick" is an exact,
//! replayable event.

use crate::*;
use rayon::prelude::*;
use serde_json::{json, Value};
use std::path::{Path, PathBuf};
use std::time::Duration;
use tokio::io::AsyncWriteExt;

const TICK_MS: u64 = 500;

#[derive(Clone, Copy, Debug, PartialEq, Eq)]
pub enum Pause {
    None,
    BeforeTick, // to 1 ms before the next flush tick
    AfterTick,  // to 1 ms after the next flush tick
    After2,     // to 1 ms after the second next tick
    OnTick,     // exactly on the next tick
}
impl Pause {
    fn name(&self) -> &'static str {
        match self {
            Pause::None => "none",
            Pause::BeforeTick => "before_tick",
            Pause::AfterTick => "after_tick",
            Pause::After2 => "after_2nd_tick",
            Pause::OnTick => "on_tick",
        }
    }
    fn from(s: &str) -> Pause {
        match s {
            "before_tick" => Pause::BeforeTick,
            "after_tick" => Pause::AfterTick,
            "after_2nd_tick" => Pause::After2,
            "on_tick" => Pause::OnTick,
            _ => Pause::None,
        }
    }
    pub const ALL: [Pause; 5] = [
        Pause::None,
        Pause::BeforeTick,
        Pause::AfterTick,
        Pause::After2,
        Pause::OnTick,
    ];
}

#[derive(Clone, Debug)]
pub struct Script {
    pub steps: Vec<(Pause, Vec<u8>)>,
    pub final_pause: Pause,
}
impl Script {
    pub fn expected(&self) -> Vec<u8> {
        self.steps.iter().flat_map(|(_, c)| c.iter().copied()).collect()
    }
    pub fn to_value(&self) -> Value {
        json!({
            "steps": self.steps.iter().map(|(p, c)| json!({"pause": p.name(), "write": chunk_repr(c)})).collect::<Vec<_>>(),
            "final_pause": self.final_pause.name(),
        })
    }
    pub fn from_value(v: &Value) -> Script {
        Script {
            steps: v["steps"]
                .as_array()
                .cloned()
                .unwrap_or_default()
                .iter()
                .map(|s| (Pause::from(s["pause"].as_str().unwrap_or("")), chunk_parse(&s["write"])))
                .collect(),
            final_pause: Pause::from(v["final_pause"].as_str().unwrap_or("")),
        }
    }
    pub fn empty() -> Script {
        Script { steps: vec![], final_pause: Pause::None }
    }
}

fn chunk_repr(c: &[u8]) -> Value {
    if c.len() > 200 && c.len() >= 1000 && c[0] != c[1] {
        // incompressible chunk: identified by its generator parameters (see `noise`)
        for seed in 0..8u64 {
            for line in [0usize, 64, 100_000] {
                if noise(c.len(), line, seed) == c {
                    return json!({"noise": c.len(), "line": line, "seed": seed});
                }
            }
        }
    }
    if c.len() > 200 {
        // big chunks: first byte repeated, optional trailing newline
        json!({"big": c.len(), "byte": c[0], "nl": c.last() == Some(&b'\n')})
    } else {
        json!({"hex": c.iter().map(|b| format!("{:02x}", b)).collect::<String>(), "text": String::from_utf8_lossy(c)})
    }
}
fn chunk_parse(v: &Value) -> Vec<u8> {
    if let Some(n) = v["noise"].as_u64() {
        return noise(n as usize, v["line"].as_u64().unwrap_or(0) as usize, v["seed"].as_u64().unwrap_or(0));
    }
    if let Some(n) = v["big"].as_u64() {
        let mut c = vec![v["byte"].as_u64().unwrap_or(88) as u8; n as usize];
        if v["nl"].as_bool().unwrap_or(false) {
            *c.last_mut().unwrap() = b'\n';
        }
        c
    } else {
        let h = v["hex"].as_str().unwrap_or("");
        (0..h.len() / 2).map(|i| u8::from_str_radix(&h[2 * i..2 * i + 2], 16).unwrap()).collect()
    }
}

async fn do_pause(p: Pause, t0: tokio::time::Instant) {
    if p == Pause::None {
        return;
    }
    let now = tokio::time::Instant::now();
    let el = now.duration_since(t0).as_millis() as u64;
    let next_tick = (el / TICK_MS + 1) * TICK_MS;
    let target = match p {
        Pause::BeforeTick => next_tick - 1,
        Pause::AfterTick => next_tick + 1,
        Pause::After2 => next_tick + TICK_MS + 1,
        Pause::OnTick => next_tick,
        Pause::None => el,
    };
    if target > el {
        tokio::time::sleep_until(t0 + Duration::from_millis(target)).await;
    }
}

async fn feed(mut w: tokio::io::DuplexStream, script: Script, t0: tokio::time::Instant) {
    for (p, c) in script.steps {
        do_pause(p, t0).await;
        if w.write_all(&c).await.is_err() {
            return;
        }
        let _ = w.flush().await;
    }
    do_pause(script.final_pause, t0).await;
    drop(w);
}

pub struct Outcome {
    pub result: Result<(), String>,
    pub stored: Vec<(Result<Vec<u8>, String>, Result<Vec<u8>, String>)>,
}

/// One execution: `members[i]` = (stdout script, stderr script) of group member i.
pub fn execute(members: &[(Script, Script)], seed: u64, dir: &Path) -> Outcome {
    let _ = std::fs::create_dir_all(dir);
    let paths: Vec<(PathBuf, PathBuf)> = (0..members.len())
        .map(|i| (dir.join(format!("m{}.stdout.zst", i)), dir.join(format!("m{}.stderr.zst", i))))
        .collect();
    for (a, b) in &paths {
        let _ = std::fs::remove_file(a);
        let _ = std::fs::remove_file(b);
    }
    let rt = tokio::runtime::Builder::new_current_thread()
        .enable_time()
        .start_paused(true)
        .rng_seed(tokio::runtime::RngSeed::from_bytes(&seed.to_le_bytes()))
        .build()
        .unwrap();
    let members_c = members.to_vec();
    let paths_c = paths.clone();
    let result = rt.block_on(async move {
        let t0 = tokio::time::Instant::now();
        let mut readers = vec![];
        for (so, se) in members_c {
            let (w0, r0) = tokio::io::duplex(65536);
            let (w1, r1) = tokio::io::duplex(65536);
            tokio::spawn(feed(w0, so, t0));
            tokio::spawn(feed(w1, se, t0));
            readers.push((r0, r1));
        }
        monorail::verif::capture(readers, paths_c).await
    });
    drop(rt);
    let dec = |p: &Path| -> Result<Vec<u8>, String> {
        let f = std::fs::File::open(p).map_err(|e| format!("open: {}", e))?;
        zstd::stream::decode_all(f).map_err(|e| format!("decode: {}", e))
    };
    let stored = paths.iter().map(|(a, b)| (dec(a), dec(b))).collect();
    Outcome { result, stored }
}

fn is_subsequence(small: &[u8], big: &[u8]) -> bool {
    let mut i = 0;
    for b in big {
        if i < small.len() && small[i] == *b {
            i += 1;
        }
    }
    i == small.len()
}

/// Defects of one execution as (sig, detail).
pub fn judge(members: &[(Script, Script)], out: &Outcome) -> Vec<(String, String)> {
    let mut d = vec![];
    if let Err(e) = &out.result {
        if !e.starts_with("shutdown:") {
            d.push(("capture-error".to_string(), e.clone()));
        }
    }
    for (i, (so, se)) in members.iter().enumerate() {
        for (name, script, got) in [("stdout", so, &out.stored[i].0), ("stderr", se, &out.stored[i].1)] {
            let want = script.expected();
            match got {
                Err(e) => d.push(("undecodable".to_string(), format!("member {} {}: {}", i, name, e))),
                Ok(g) => {
                    if g != &want {
                        let sig = if g.len() < want.len() && is_subsequence(g, &want) {
                            "bytes-lost"
                        } else {
                            "bytes-wrong"
                        };
                        d.push((
                            sig.to_string(),
                            format!(
                                "member {} {}: stored {} bytes {:?}, written {} bytes {:?}",
                                i,
                                name,
                                g.len(),
                                String::from_utf8_lossy(&g[..g.len().min(40)]),
                                want.len(),
                                String::from_utf8_lossy(&want[..want.len().min(40)])
                            ),
                        ));
                    }
                }
            }
        }
    }
    d
}

fn thread_dir(root: &Path) -> PathBuf {
    root.join(format!("w{}", rayon::current_thread_index().unwrap_or(999)))
}

fn chunks(tier: &str) -> Vec<Vec<u8>> {
    let mut big = vec![b'X'; 20_000];
    let mut v: Vec<Vec<u8>> = vec![
        b"A".to_vec(),
        b"B\n".to_vec(),
        b"CC\nD".to_vec(),
        b"\xff\x00\n".to_vec(),
        big.clone(),
    ];
    if tier == "thorough" {
        v.push(b"\n".to_vec());
        *big.last_mut().unwrap() = b'\n';
        v.push(big);
    }
    v
}

fn all_scripts(alpha: &[Vec<u8>], pauses: &[Pause], len: usize, finals: &[Pause]) -> Vec<Script> {
    let mut steps: Vec<(Pause, Vec<u8>)> = vec![];
    for p in pauses {
        for c in alpha {
            steps.push((*p, c.clone()));
        }
    }
    let mut out = vec![];
    let mut cur: Vec<Vec<(Pause, Vec<u8>)>> = vec![vec![]];
    for _ in 0..len {
        let mut next = vec![];
        for s in &cur {
            for st in &steps {
                let mut n = s.clone();
                n.push(st.clone());
                next.push(n);
            }
        }
        for s in &next {
            for f in finals {
                out.push(Script { steps: s.clone(), final_pause: *f });
            }
        }
        cur = next;
    }
    out
}

fn default_script(id: &str) -> Script {
    Script {
        steps: vec![
            (Pause::None, format!("{}-line1\n", id).into_bytes()),
            (Pause::None, format!("{}-line2\n", id).into_bytes()),
        ],
        final_pause: Pause::None,
    }
}

/// single-deviation variants of the default script of stream `id`
fn deviations(id: &str) -> Vec<(String, Script)> {
    let l1 = format!("{}-line1\n", id).into_bytes();
    let l2 = format!("{}-line2\n", id).into_bytes();
    let mut out = vec![];
    for p in [Pause::BeforeTick, Pause::AfterTick, Pause::After2, Pause::OnTick] {
        // split line 1 in the middle with a pause
        out.push((
            format!("split+{}", p.name()),
            Script {
                steps: vec![(Pause::None, l1[..3].to_vec()), (p, l1[3..].to_vec()), (Pause::None, l2.clone())],
                final_pause: Pause::None,
            },
        ));
        // whole lines separated by a pause
        out.push((
            format!("pause+{}", p.name()),
            Script { steps: vec![(Pause::None, l1.clone()), (p, l2.clone())], final_pause: Pause::None },
        ));
    }
    out.push((
        "no-final-newline".into(),
        Script { steps: vec![(Pause::None, l1.clone()), (Pause::None, l2[..l2.len() - 1].to_vec())], final_pause: Pause::None },
    ));
    out.push((
        "no-final-newline+tick-before-eof".into(),
        Script { steps: vec![(Pause::None, l1.clone()), (Pause::None, l2[..l2.len() - 1].to_vec())], final_pause: Pause::AfterTick },
    ));
    out.push((
        "binary".into(),
        Script { steps: vec![(Pause::None, l1.clone()), (Pause::None, vec![0xff, 0x00, 0xfe, b'\n'])], final_pause: Pause::None },
    ));
    let mut big = vec![id.as_bytes()[0]; 20_000];
    big.push(b'\n');
    out.push((
        "big".into(),
        Script { steps: vec![(Pause::None, big), (Pause::None, l2.clone())], final_pause: Pause::None },
    ));
    out.push(("empty".into(), Script::empty()));
    out
}

/// deterministic incompressible bytes (xorshift), with a newline every `line` bytes (0 = none)
pub fn noise(len: usize, line: usize, seed: u64) -> Vec<u8> {
    let mut x = 0x9E3779B97F4A7C15u64 ^ seed.wrapping_mul(0xD1B54A32D192ED03);
    let mut v = Vec::with_capacity(len);
    while v.len() < len {
        x ^= x << 13;
        x ^= x >> 7;
        x ^= x << 17;
        for b in x.to_le_bytes() {
            if v.len() < len {
                v.push(if b == b'\n' { 0x0b } else { b });
            }
        }
    }
    if line > 0 {
        let mut i = line - 1;
        while i < len {
            v[i] = b'\n';
            i += line;
        }
    }
    v
}

fn members_value(m: &[(Script, Script)]) -> Value {
    json!(m.iter().map(|(a, b)| json!({"stdout": a.to_value(), "stderr": b.to_value()})).collect::<Vec<_>>())
}

pub fn run(tier: &str, root: &Path, shard: usize, nshards: usize) -> Value {
    let rep = Report::new();
    let thorough = tier == "thorough";
    let seeds: Vec<u64> = if thorough { (0..16).collect() } else { (0..4).collect() };
    let alpha = chunks(tier);
    let finals = [Pause::None, Pause::AfterTick];
    // ---- part 1: every single-stream script up to length L (other stream empty)
    let len = 3;
    let mut scripts = all_scripts(&alpha, &Pause::ALL, len, &finals);
    let mut l4 = 0usize;
    if thorough {
        // length 4 over a reduced alphabet (the chunks that differ in newline structure)
        let small: Vec<Vec<u8>> = vec![b"A".to_vec(), b"B\n".to_vec(), b"CC\nD".to_vec()];
        let extra: Vec<Script> = all_scripts(&small, &Pause::ALL, 4, &finals)
            .into_iter()
            .filter(|s| s.steps.len() == 4)
            .collect();
        l4 = extra.len();
        scripts.extend(extra);
    }
    let seed_dependent = std::sync::atomic::AtomicU64::new(0);
    let outcomes_seen = std::sync::Mutex::new(std::collections::BTreeSet::<u64>::new());
    scripts.par_iter().enumerate().filter(|(k, _)| k % nshards == shard).for_each(|(k, s)| {
        let dir = thread_dir(root);
        let mut first: Option<Vec<u8>> = None;
        let straddles = s.steps.iter().enumerate().any(|(i, (p, _))| {
            *p != Pause::None && i > 0 && s.steps[i - 1].1.last() != Some(&b'\n')
        });
        if straddles {
            rep.nontrivial(1);
        }
        let local_seeds: &[u64] = if s.steps.len() == 4 { &seeds[..seeds.len().min(4)] } else { &seeds };
        for &seed in local_seeds {
            rep.eval(1);
            let members = vec![(s.clone(), Script::empty())];
            let out = execute(&members, seed, &dir);
            let got = out.stored[0].0.clone().unwrap_or_default();
            {
                use std::hash::{Hash, Hasher};
                let mut h = std::collections::hash_map::DefaultHasher::new();
                got.hash(&mut h);
                let mut g = outcomes_seen.lock().unwrap();
                if g.len() < 100_000 {
                    g.insert(h.finish());
                }
            }
            match &first {
                None => first = Some(got),
                Some(f) => {
                    if f != &got {
                        seed_dependent.fetch_add(1, std::sync::atomic::Ordering::Relaxed);
                    }
                }
            }
            for (sig, detail) in judge(&members, &out) {
                let rank = (s.steps.len() as u64) * 10_000_000 + (k as u64) * 16 + seed;
                rep.violation(&sig, rank, json!({"members": members_value(&members), "seed": seed}), detail);
            }
        }
    });
    // ---- part 2: groups of several members, deviation-bounded
    let bound = if thorough { 2 } else { 1 };
    let ids = ["t0o", "t0e", "t1o", "t1e"]; // 2 targets x 2 streams, distinct alphabets
    let devs: Vec<Vec<(String, Script)>> = ids.iter().map(|id| deviations(id)).collect();
    let mut plans: Vec<Vec<Option<usize>>> = vec![vec![None; 4]];
    for s in 0..4 {
        for d in 0..devs[s].len() {
            let mut p = vec![None; 4];
            p[s] = Some(d);
            plans.push(p);
        }
    }
    if bound >= 2 {
        for s1 in 0..4 {
            for s2 in (s1 + 1)..4 {
                for d1 in 0..devs[s1].len() {
                    for d2 in 0..devs[s2].len() {
                        let mut p = vec![None; 4];
                        p[s1] = Some(d1);
                        p[s2] = Some(d2);
                        plans.push(p);
                    }
                }
            }
        }
    }
    let multi_execs = std::sync::atomic::AtomicU64::new(0);
    plans.par_iter().enumerate().filter(|(k, _)| k % nshards == shard).for_each(|(k, plan)| {
        let dir = thread_dir(root);
        let pick = |s: usize| -> Script {
            match plan[s] {
                None => default_script(ids[s]),
                Some(d) => devs[s][d].1.clone(),
            }
        };
        let members = vec![(pick(0), pick(1)), (pick(2), pick(3))];
        for &seed in &seeds[..2] {
            rep.eval(1);
            multi_execs.fetch_add(1, std::sync::atomic::Ordering::Relaxed);
            rep.nontrivial(if seed == 0 { 1 } else { 0 });
            let out = execute(&members, seed, &dir);
            for (sig, detail) in judge(&members, &out) {
                rep.violation(&sig, 900_000_000 + (k as u64) * 16 + seed, json!({"members": members_value(&members), "seed": seed}), detail);
            }
        }
    });
    // ---- part 3: incompressible volume (crosses the encoder's internal block and output-buffer sizes)
    let mut vol: Vec<Vec<(Pause, Vec<u8>)>> = vec![];
    for (len, line) in [(140_000usize, 64usize), (300_000, 64), (300_000, 0), (700_000, 100_000)] {
        let mut a = noise(len, line, 1);
        if line == 0 {
            a.push(b'\n');
        }
        vol.push(vec![(Pause::None, a.clone())]);
        vol.push(vec![(Pause::None, a.clone()), (Pause::AfterTick, noise(len / 2, 64, 2))]);
        vol.push(vec![(Pause::None, noise(100, 0, 3)), (Pause::AfterTick, a.clone())]);
    }
    // one long unterminated line (around and above 64 KiB, not a multiple of it) still pending when a
    // flush tick fires, continued or ended afterwards
    for (i, len) in [65_535usize, 65_536, 65_537, 108_894, 131_077, 200_001].into_iter().enumerate() {
        let a = noise(len, 0, 10 + i as u64);
        vol.push(vec![(Pause::None, a.clone()), (Pause::AfterTick, b"END\n".to_vec())]);
        vol.push(vec![(Pause::None, a.clone()), (Pause::After2, noise(70_001, 0, 20 + i as u64)), (Pause::AfterTick, b"\n".to_vec())]);
    }
    vol.par_iter().enumerate().filter(|(k, _)| k % nshards == shard).for_each(|(k, steps)| {
        let dir = thread_dir(root);
        let sc = Script { steps: steps.clone(), final_pause: Pause::None };
        let members = vec![(sc.clone(), default_script("v0e")), (default_script("v1o"), sc.clone())];
        rep.eval(1);
        rep.nontrivial(1);
        let out = execute(&members, 0, &dir);
        for (sig, detail) in judge(&members, &out) {
            rep.violation(&sig, 950_000_000 + k as u64, json!({"members": members_value(&members), "seed": 0}), detail);
        }
    });
    // group sizes moving the round-robin registration over the two compressor threads
    for n in [1usize, 2, 3, 5, 8] {
        if n % nshards != shard {
            continue;
        }
        let members: Vec<(Script, Script)> = (0..n)
            .map(|i| (default_script(&format!("g{}o", i)), default_script(&format!("g{}e", i))))
            .collect();
        rep.eval(1);
        let out = execute(&members, 0, &thread_dir(root));
        for (sig, detail) in judge(&members, &out) {
            rep.violation(&sig, 990_000_000 + n as u64, json!({"members": members_value(&members), "seed": 0}), detail);
        }
    }
    rep.extra("single_stream_scripts_total", json!(scripts.len()));
    rep.extra("length4_scripts_total", json!(l4));
    rep.extra("seeds_list", json!(seeds));
    rep.extra("multi_stream_plans_total", json!(plans.len()));
    rep.extra("scripts_whose_stored_bytes_differ_between_seeds", json!(seed_dependent.load(std::sync::atomic::Ordering::Relaxed)));
    rep.extra("stored_outcome_hashes_set", json!(outcomes_seen.lock().unwrap().iter().map(|h| format!("{:x}", h)).collect::<Vec<_>>()));
    rep.sample(json!({"members": members_value(&[(Script { steps: vec![(Pause::None, b"AAA".to_vec()), (Pause::AfterTick, b"BBB\n".to_vec())], final_pause: Pause::None }, Script::empty())]), "seed": 0}));
    rep.sample(json!({"members": members_value(&[(scripts[scripts.len() / 2].clone(), Script::empty())]), "seed": 1}));
    rep.finish(
        "part 1: every script (sequence of (pause class, chunk) steps, then a final pause class before EOF) of length <=3 over the chunk alphabet x 5 pause classes relative to the 500 ms flush tick, one stream, every select! seed listed (thorough adds length 4 over a 3-chunk alphabet); part 2: 2 members x 2 streams with per-stream distinct bytes, default script plus every combination of <=bound single-stream deviations (split+pause, pause, no final newline, binary, 20 kB line, empty), and group sizes 1,2,3,5,8; part 3: incompressible (pseudo-random) volume of 140 kB - 700 kB per stream as short lines, as one long line and split by a pause, plus unterminated lines of 65535..200001 bytes held across one and two flush ticks; each execution = real process_reader + real Compressor threads under a paused clock; oracle: every stored file decodes to exactly the bytes written to that stream; non-trivial = scripts in which a pause follows an unterminated line (part 1) / every plan (part 2)",
        true,
        json!({"script_len": len, "chunks": alpha.len(), "pause_classes": 5, "final_pause_classes": 2, "deviation_bound": bound, "seeds": seeds.len()}),
    )
}

pub fn replay(case: &Value, root: &Path) -> Vec<(String, String)> {
    let members: Vec<(Script, Script)> = case["members"]
        .as_array()
        .cloned()
        .unwrap_or_default()
        .iter()
        .map(|m| (Script::from_value(&m["stdout"]), Script::from_value(&m["stderr"])))
        .collect();
    let seed = case["seed"].as_u64().unwrap_or(0);
    let a = execute(&members, seed, &root.join("replay"));
    let b = execute(&members, seed, &root.join("replay"));
    let (ja, jb) = (judge(&members, &a), judge(&members, &b));
    if ja != jb {
        return vec![("engine-divergence".into(), format!("two replays differ: {:?} vs {:?}", ja, jb))];
    }
    ja
}
