//! Shared oracles and plumbing for the in-process exhaustive explorers (`vx`).
//! Reference vocabulary: DESIGN.md section 3. Everything here is deliberately boring.

pub mod c01;
pub mod c03;
pub mod c08;
pub mod c10;
pub mod c17;

use serde_json::{json, Value};
use std::collections::{BTreeMap, BTreeSet};
use std::path::{Path, PathBuf};
use std::sync::atomic::{AtomicU64, Ordering};
use std::sync::Mutex;

// ------------------------------------------------------------------------------------------
// path relations (whole components, never raw prefixes)

pub fn inside(x: &str, p: &str) -> bool {
    x == p || (x.len() > p.len() && x.starts_with(p) && x.as_bytes()[p.len()] == b'/')
}

#[derive(Clone, Debug, PartialEq, Eq, Hash, PartialOrd, Ord)]
pub struct Tgt {
    pub path: String,
    pub uses: Vec<String>,
    pub ignores: Vec<String>,
}
impl Tgt {
    pub fn new(path: &str) -> Self {
        Tgt {
            path: path.to_string(),
            uses: vec![],
            ignores: vec![],
        }
    }
}

#[derive(Clone, Debug, PartialEq, Eq, Hash, PartialOrd, Ord)]
pub struct Cfg {
    pub targets: Vec<Tgt>,
}
impl Cfg {
    pub fn to_value(&self) -> Value {
        let ts: Vec<Value> = self
            .targets
            .iter()
            .map(|t| {
                let mut m = serde_json::Map::new();
                m.insert("path".into(), json!(t.path));
                if !t.uses.is_empty() {
                    m.insert("uses".into(), json!(t.uses));
                }
                if !t.ignores.is_empty() {
                    m.insert("ignores".into(), json!(t.ignores));
                }
                Value::Object(m)
            })
            .collect();
        json!({ "targets": ts })
    }
    pub fn to_json(&self) -> String {
        self.to_value().to_string()
    }
    pub fn from_value(v: &Value) -> Cfg {
        let mut targets = vec![];
        for t in v["targets"].as_array().cloned().unwrap_or_default() {
            let strs = |k: &str| -> Vec<String> {
                t[k].as_array()
                    .map(|a| a.iter().map(|s| s.as_str().unwrap().to_string()).collect())
                    .unwrap_or_default()
            };
            targets.push(Tgt {
                path: t["path"].as_str().unwrap().to_string(),
                uses: strs("uses"),
                ignores: strs("ignores"),
            });
        }
        Cfg { targets }
    }
    /// dep(T, U): U != T and (T.path inside U.path or some use of T inside U.path)
    pub fn dep(&self, t: usize, u: usize) -> bool {
        if t == u {
            return false;
        }
        let (tt, uu) = (&self.targets[t], &self.targets[u]);
        if tt.path == uu.path {
            return false;
        }
        inside(&tt.path, &uu.path) || tt.uses.iter().any(|s| inside(s, &uu.path))
    }
    pub fn adj(&self) -> Vec<Vec<usize>> {
        let n = self.targets.len();
        (0..n)
            .map(|t| (0..n).filter(|&u| self.dep(t, u)).collect())
            .collect()
    }
}

// ------------------------------------------------------------------------------------------
// graph oracles on adjacency lists (edge t -> u means "t depends on u")

pub fn closure(adj: &[Vec<usize>], roots: &[usize]) -> BTreeSet<usize> {
    let mut seen = BTreeSet::new();
    let mut stack: Vec<usize> = roots.to_vec();
    while let Some(n) = stack.pop() {
        if seen.insert(n) {
            for &m in &adj[n] {
                stack.push(m);
            }
        }
    }
    seen
}

/// true iff the subgraph induced on `nodes` contains a directed cycle
pub fn has_cycle(adj: &[Vec<usize>], nodes: &BTreeSet<usize>) -> bool {
    // repeatedly strip nodes with no outgoing edge inside the remaining set
    let mut rem: BTreeSet<usize> = nodes.clone();
    loop {
        let strip: Vec<usize> = rem
            .iter()
            .copied()
            .filter(|&n| !adj[n].iter().any(|m| rem.contains(m)))
            .collect();
        if strip.is_empty() {
            return !rem.is_empty();
        }
        for n in strip {
            rem.remove(&n);
        }
    }
}

/// groups partition exactly `want`, and every dependency inside `want` sits in a strictly
/// earlier group. Returns a description of the first defect.
pub fn layering_defect(
    adj: &[Vec<usize>],
    want: &BTreeSet<usize>,
    groups: &[Vec<usize>],
) -> Option<String> {
    let mut idx: BTreeMap<usize, usize> = BTreeMap::new();
    for (gi, g) in groups.iter().enumerate() {
        if g.is_empty() {
            return Some(format!("empty group at {}", gi));
        }
        for &n in g {
            if idx.insert(n, gi).is_some() {
                return Some(format!("node {} appears twice", n));
            }
        }
    }
    let got: BTreeSet<usize> = idx.keys().copied().collect();
    if &got != want {
        return Some(format!(
            "groups contain {:?} but the requested set is {:?}",
            got, want
        ));
    }
    // dependencies are transitive: when only part of a chain is requested (pruning to the changed
    // targets), a target still has to come after everything it reaches through targets that are not
    // part of the groups
    for &t in want {
        let reach = closure(adj, &[t]);
        for &u in &reach {
            if u != t && want.contains(&u) && !(idx[&u] < idx[&t]) {
                return Some(format!(
                    "{} depends on {} ({}) but is in group {} <= group {}",
                    t,
                    u,
                    if adj[t].contains(&u) { "directly" } else { "through other targets" },
                    idx[&t],
                    idx[&u]
                ));
            }
        }
    }
    None
}

// ------------------------------------------------------------------------------------------
// scratch directory holding the directory universe (every target dir must contain a file)

pub fn scratch_root() -> PathBuf {
    if let Ok(v) = std::env::var("VX_SCRATCH") {
        return PathBuf::from(v);
    }
    let base = if Path::new("/dev/shm").is_dir() {
        PathBuf::from("/dev/shm")
    } else {
        std::env::temp_dir()
    };
    base.join(format!("vx-{}", std::process::id()))
}

pub fn make_universe(root: &Path, dirs: &[&str], files: &[&str]) {
    for d in dirs {
        let p = root.join(d);
        std::fs::create_dir_all(&p).unwrap();
        std::fs::write(p.join("f"), b"x").unwrap();
    }
    for f in files {
        let p = root.join(f);
        if let Some(parent) = p.parent() {
            std::fs::create_dir_all(parent).unwrap();
        }
        if !p.exists() {
            std::fs::write(&p, b"x").unwrap();
        }
    }
}

// ------------------------------------------------------------------------------------------
// reporting

pub struct Report {
    pub evaluations: AtomicU64,
    pub nontrivial: AtomicU64,
    inner: Mutex<ReportInner>,
    pub max_keep: usize,
}
#[derive(Default)]
struct ReportInner {
    violations: Vec<Value>,
    by_sig: BTreeMap<String, u64>,
    samples: Vec<Value>,
    extra: BTreeMap<String, Value>,
    counters: BTreeMap<String, u64>,
}
impl Default for Report {
    fn default() -> Self {
        Self::new()
    }
}
impl Report {
    pub fn new() -> Self {
        Report {
            evaluations: AtomicU64::new(0),
            nontrivial: AtomicU64::new(0),
            inner: Mutex::new(ReportInner::default()),
            max_keep: 5,
        }
    }
    pub fn eval(&self, n: u64) {
        self.evaluations.fetch_add(n, Ordering::Relaxed);
    }
    pub fn nontrivial(&self, n: u64) {
        self.nontrivial.fetch_add(n, Ordering::Relaxed);
    }
    pub fn count(&self, key: &str, n: u64) {
        let mut g = self.inner.lock().unwrap();
        *g.counters.entry(key.to_string()).or_insert(0) += n;
    }
    /// `rank` orders violations of one signature: the smallest ranks are kept, so the reported
    /// case is the simplest one irrespective of thread scheduling.
    pub fn violation(&self, sig: &str, rank: u64, case: Value, detail: String) {
        let mut g = self.inner.lock().unwrap();
        *g.by_sig.entry(sig.to_string()).or_insert(0) += 1;
        g.violations
            .push(json!({"sig": sig, "rank": rank, "case": case, "detail": detail}));
        // keep the list bounded: per signature the `max_keep` lowest ranks
        if g.violations.len() > 4096 {
            Self::prune(&mut g, self.max_keep);
        }
    }
    fn prune(g: &mut ReportInner, keep: usize) {
        let mut per: BTreeMap<String, Vec<Value>> = BTreeMap::new();
        for v in g.violations.drain(..) {
            per.entry(v["sig"].as_str().unwrap().to_string())
                .or_default()
                .push(v);
        }
        for (_, mut vs) in per {
            vs.sort_by_key(|v| (v["rank"].as_u64().unwrap(), v["case"].to_string()));
            vs.truncate(keep);
            g.violations.extend(vs);
        }
    }
    pub fn sample(&self, v: Value) {
        let mut g = self.inner.lock().unwrap();
        if g.samples.len() < 6 {
            g.samples.push(v);
        }
    }
    pub fn extra(&self, k: &str, v: Value) {
        self.inner.lock().unwrap().extra.insert(k.to_string(), v);
    }
    pub fn finish(&self, rule: &str, exhaustive: bool, bounds: Value) -> Value {
        let mut g = self.inner.lock().unwrap();
        Self::prune(&mut g, self.max_keep);
        let total: u64 = g.by_sig.values().sum();
        json!({
            "evaluations": self.evaluations.load(Ordering::Relaxed),
            "distinct_nontrivial": self.nontrivial.load(Ordering::Relaxed),
            "rule": rule,
            "exhaustive": exhaustive,
            "bounds": bounds,
            "samples": g.samples,
            "violations": g.violations,
            "violation_count": total,
            "by_sig": g.by_sig,
            "counters": g.counters,
            "extra": g.extra,
        })
    }
}

/// Runs `f` under `catch_unwind`, mapping a panic to Err(message).
pub fn guarded<T>(f: impl FnOnce() -> T + std::panic::UnwindSafe) -> Result<T, String> {
    match std::panic::catch_unwind(f) {
        Ok(v) => Ok(v),
        Err(e) => {
            let msg = if let Some(s) = e.downcast_ref::<&str>() {
                s.to_string()
            } else if let Some(s) = e.downcast_ref::<String>() {
                s.clone()
            } else {
                "panic".to_string()
            };
            Err(msg)
        }
    }
}

/// all permutations of 0..n in lexicographic order
pub fn permutations(n: usize) -> Vec<Vec<usize>> {
    fn rec(cur: &mut Vec<usize>, used: &mut Vec<bool>, n: usize, out: &mut Vec<Vec<usize>>) {
        if cur.len() == n {
            out.push(cur.clone());
            return;
        }
        for i in 0..n {
            if !used[i] {
                used[i] = true;
                cur.push(i);
                rec(cur, used, n, out);
                cur.pop();
                used[i] = false;
            }
        }
    }
    let mut out = vec![];
    rec(&mut vec![], &mut vec![false; n], n, &mut out);
    out
}

/// all subsets of `items` with size in lo..=hi, by size then lexicographic
pub fn subsets<T: Clone>(items: &[T], lo: usize, hi: usize) -> Vec<Vec<T>> {
    let n = items.len();
    let mut out = vec![];
    for k in lo..=hi.min(n) {
        let mut idx: Vec<usize> = (0..k).collect();
        if k == 0 {
            out.push(vec![]);
            continue;
        }
        loop {
            out.push(idx.iter().map(|&i| items[i].clone()).collect());
            let mut i = k;
            while i > 0 && idx[i - 1] == n - k + i - 1 {
                i -= 1;
            }
            if i == 0 {
                break;
            }
            idx[i - 1] += 1;
            for j in i..k {
                idx[j] = idx[j - 1] + 1;
            }
        }
    }
    out
}
