//! C17 (generated config usable iff source, output and lockfile untouched) and
//! C18 (configuration meaning depends only on its JSON value) - in-process sweeps through
//! `verif::config_load_check` = `Config::new` + `Config::check` as `cli::handle` calls them.
//! The generated files come from the real `monorail config generate` (binary in VX_MONORAIL).

use crate::*;
use rayon::prelude::*;
use serde_json::{json, Value};
use std::io::Write;
use std::path::{Path, PathBuf};

fn monorail_bin() -> String {
    std::env::var("VX_MONORAIL").unwrap_or_else(|_| "/verif/target/repo-hooks/debug/monorail".into())
}

fn base_config(n_targets: usize, source: Option<&str>) -> Value {
    let mut targets = vec![];
    for i in 0..n_targets {
        let mut t = serde_json::Map::new();
        t.insert("path".into(), json!(format!("pkg/t{:04}", i)));
        if i % 3 == 1 {
            t.insert("uses".into(), json!([format!("pkg/t{:04}", i - 1), "shared/lib"]));
        }
        if i % 4 == 2 {
            t.insert("ignores".into(), json!([format!("pkg/t{:04}/README.md", i)]));
        }
        targets.push(Value::Object(t));
    }
    let mut m = serde_json::Map::new();
    if let Some(s) = source {
        m.insert("source".into(), json!({"path": s}));
    }
    m.insert("out_dir".into(), json!("monorail-out"));
    m.insert("max_retained_runs".into(), json!(3));
    m.insert("targets".into(), json!(targets));
    m.insert("sequences".into(), json!({"dev": ["build", "test"]}));
    m.insert("server".into(), json!({"log": {"port": 5918}, "lock": {"port": 5917}}));
    Value::Object(m)
}

/// Source text whose *generated* counterpart is close to `want` bytes (targets added until reached).
fn source_of_size(want: usize, name: &str) -> Vec<u8> {
    let mut n = 1;
    loop {
        let v = base_config(n, Some(name));
        let s = serde_json::to_vec_pretty(&v).unwrap();
        if s.len() >= want || n > 5000 {
            return s;
        }
        n += 1;
    }
}

struct Gen {
    label: String,
    source_name: String,
    source: Vec<u8>,
    generated: Vec<u8>,
    lock: Vec<u8>,
}

/// Runs the real `config generate` in `dir` (cwd) for a source file; output `<label>.json` + `.lock`.
fn generate(dir: &Path, label: &str, source: &[u8]) -> Result<Gen, String> {
    let source_name = format!("src-{}.json", label);
    std::fs::write(dir.join(&source_name), source).map_err(|e| e.to_string())?;
    let out_path = dir.join(format!("{}.json", label));
    let mut child = std::process::Command::new(monorail_bin())
        .args(["-f", out_path.to_str().unwrap(), "config", "generate"])
        .current_dir(dir)
        .stdin(std::process::Stdio::piped())
        .stdout(std::process::Stdio::piped())
        .stderr(std::process::Stdio::piped())
        .spawn()
        .map_err(|e| format!("spawn monorail: {}", e))?;
    child.stdin.take().unwrap().write_all(source).map_err(|e| e.to_string())?;
    let out = child.wait_with_output().map_err(|e| e.to_string())?;
    if !out.status.success() {
        return Err(format!("config generate failed: {}", String::from_utf8_lossy(&out.stderr)));
    }
    Ok(Gen {
        label: label.to_string(),
        source_name,
        source: source.to_vec(),
        generated: std::fs::read(&out_path).map_err(|e| e.to_string())?,
        lock: std::fs::read(dir.join(format!("{}.lock", label))).map_err(|e| e.to_string())?,
    })
}

fn load(cfg_path: &Path, dir: &Path) -> Result<Result<String, String>, String> {
    let (c, d) = (cfg_path.to_path_buf(), dir.to_path_buf());
    guarded(move || monorail::verif::config_load_check(&c, &d))
}

#[derive(Clone, Copy, Debug)]
enum Edit {
    Xor1,
    Xor20,
    Delete,
    InsertSpace,
    InsertCr,
    InsertLf,
}
impl Edit {
    const ALL: [Edit; 6] = [Edit::Xor1, Edit::Xor20, Edit::Delete, Edit::InsertSpace, Edit::InsertCr, Edit::InsertLf];
    fn apply(&self, b: &[u8], off: usize) -> Vec<u8> {
        let mut v = b.to_vec();
        match self {
            Edit::Xor1 => v[off] ^= 0x01,
            Edit::Xor20 => v[off] ^= 0x20,
            Edit::Delete => {
                v.remove(off);
            }
            Edit::InsertSpace => v.insert(off, b' '),
            Edit::InsertCr => v.insert(off, b'\r'),
            Edit::InsertLf => v.insert(off, b'\n'),
        }
        v
    }
    fn name(&self) -> &'static str {
        match self {
            Edit::Xor1 => "xor01",
            Edit::Xor20 => "xor20",
            Edit::Delete => "delete",
            Edit::InsertSpace => "insert_space",
            Edit::InsertCr => "insert_cr",
            Edit::InsertLf => "insert_lf",
        }
    }
}

/// per-thread working copy names: config `<label>-w<k>.json`, lock `<label>-w<k>.lock`
fn work_names(dir: &Path, g: &Gen) -> (PathBuf, PathBuf) {
    let k = rayon::current_thread_index().unwrap_or(999);
    (
        dir.join(format!("{}-w{}.json", g.label, k)),
        dir.join(format!("{}-w{}.lock", g.label, k)),
    )
}

fn same_config(a: &[u8], b: &[u8]) -> bool {
    match (serde_json::from_slice::<Value>(a), serde_json::from_slice::<Value>(b)) {
        (Ok(x), Ok(y)) => x == y,
        _ => false,
    }
}

pub fn run_c17(tier: &str, root: &Path) -> Value {
    let rep = Report::new();
    let dir = root.join("c17");
    std::fs::create_dir_all(&dir).unwrap();
    // Config::check resolves source.path against the current directory
    std::env::set_current_dir(&dir).unwrap();
    let sizes: Vec<(usize, &str)> = vec![
        (150, "s150"),
        (4096, "s4k"),
        (8191, "s8191"),
        (8192, "s8192"),
        (8193, "s8193"),
        (20_000, "s20k"),
        (70_000, "s70k"),
    ];
    let mut gens = vec![];
    for (want, label) in &sizes {
        // start below the wanted generated size (generate adds ~110 bytes), then pad up exactly
        let exact = [8191usize, 8192, 8193].contains(want);
        let mut src = source_of_size(if exact { *want - 400 } else { *want }, &format!("src-{}.json", label));
        // pad with trailing spaces inside the source so the generated size hits the boundary sizes exactly
        let g = generate(&dir, label, &src);
        match g {
            Err(e) => {
                rep.violation("generate-failed", 0, json!({"size": want}), e);
                continue;
            }
            Ok(mut g) => {
                if [8191usize, 8192, 8193].contains(want) {
                    // adjust: lengthen out_dir value in the source until generated size == want
                    // each extra character of the out_dir value adds exactly one byte
                    let mut tries = 0;
                    while g.generated.len() != *want && tries < 5 {
                        let mut v: Value = serde_json::from_slice(&src).unwrap();
                        let cur = v["out_dir"].as_str().unwrap().to_string();
                        let have = g.generated.len();
                        let newval = if have < *want {
                            format!("{}{}", cur, "x".repeat(*want - have))
                        } else if cur.len() > have - *want {
                            cur[..cur.len() - (have - *want)].to_string()
                        } else {
                            break;
                        };
                        v["out_dir"] = json!(newval);
                        src = serde_json::to_vec_pretty(&v).unwrap();
                        g = generate(&dir, label, &src).unwrap();
                        tries += 1;
                    }
                }
                gens.push(g);
            }
        }
    }
    rep.extra("generated_sizes", json!(gens.iter().map(|g| json!({"label": g.label, "source_bytes": g.source.len(), "generated_bytes": g.generated.len()})).collect::<Vec<_>>()));
    let stride_big = if tier == "thorough" { 1 } else { 3 };
    for g in &gens {
        // untouched must load
        let (wc, wl) = work_names(&dir, g);
        std::fs::write(&wc, &g.generated).unwrap();
        std::fs::write(&wl, &g.lock).unwrap();
        rep.eval(1);
        match load(&wc, &dir) {
            Ok(Ok(_)) => {}
            Ok(Err(e)) => rep.violation("untouched-rejected", g.generated.len() as u64, json!({"size": g.generated.len(), "label": g.label, "edit": "none"}), e),
            Err(p) => rep.violation("panic", 0, json!({"size": g.generated.len(), "label": g.label, "edit": "none"}), p),
        }
        // every offset of the generated file x 4 edits; truncations; appends
        let n = g.generated.len();
        // quick: files above 32 KB are swept at stride 3 plus every offset within 8 bytes of a
        // multiple of 8192 (the I/O buffer size) and the last 64 bytes; thorough: every offset
        let offsets: Vec<usize> = if stride_big == 1 || n < 32_768 {
            (0..n).collect()
        } else {
            (0..n).filter(|o| o % stride_big == 0 || (o % 8192 < 8 || o % 8192 > 8184) || *o + 64 >= n).collect()
        };
        offsets.par_iter().for_each(|&off| {
            let (wc, wl) = work_names(&dir, g);
            if !wl.exists() {
                std::fs::write(&wl, &g.lock).unwrap();
            }
            // quick: CR / LF insertions only next to existing whitespace and at every fourth offset
            let near_ws = matches!(g.generated[off], b'\n' | b'\r' | b' ' | b'\t') || off % 4 == 0;
            let mut variants: Vec<(String, Vec<u8>)> = Edit::ALL
                .iter()
                .filter(|e| stride_big == 1 || near_ws || !matches!(e, Edit::InsertCr | Edit::InsertLf))
                .map(|e| (format!("{}@{}", e.name(), off), e.apply(&g.generated, off)))
                .collect();
            if off % 64 == 0 || off == n - 1 {
                variants.push((format!("truncate@{}", off), g.generated[..off].to_vec()));
            }
            if off == 0 {
                for tail in [" ", "\n", "x"] {
                    let mut v = g.generated.clone();
                    v.extend_from_slice(tail.as_bytes());
                    variants.push((format!("append{:?}", tail), v));
                }
            }
            for (name, bytes) in variants {
                rep.eval(1);
                let nontrivial = same_config(&bytes, &g.generated);
                if nontrivial {
                    rep.nontrivial(1);
                }
                std::fs::write(&wc, &bytes).unwrap();
                match load(&wc, &dir) {
                    Ok(Err(_)) => {}
                    Ok(Ok(_)) => rep.violation(
                        if off >= 8192 { "tamper-accepted:beyond-first-buffer" } else { "tamper-accepted" },
                        (n as u64) * 1_000_000 + off as u64,
                        json!({"size": n, "label": g.label, "file": "generated", "edit": name}),
                        format!("generated file edited ({}) but load+check succeeded{}", name, if nontrivial { " (edit keeps the JSON value: only the checksum can catch it)" } else { "" }),
                    ),
                    Err(p) => rep.violation("panic", 0, json!({"size": n, "label": g.label, "file": "generated", "edit": name}), p),
                }
            }
        });
        // source edits (generated + lock untouched); the source name is shared, so sequential per label
        let (wc, wl) = work_names(&dir, g);
        std::fs::write(&wc, &g.generated).unwrap();
        std::fs::write(&wl, &g.lock).unwrap();
        let sn = g.source.len();
        let sstride = if tier == "thorough" || sn < 10_000 { 1 } else if sn < 32_768 { 7 } else { 31 };
        let spath = dir.join(&g.source_name);
        let old_time = std::time::UNIX_EPOCH + std::time::Duration::from_secs(1_000_000_000);
        for off in (0..sn).step_by(sstride) {
            for (ei, e) in Edit::ALL.iter().enumerate() {
                if tier != "thorough" && matches!(e, Edit::InsertCr | Edit::InsertLf) && !(matches!(g.source[off], b'\n' | b'\r' | b' ' | b'\t') || off % 4 == 0) {
                    continue;
                }
                rep.eval(1);
                std::fs::write(&spath, e.apply(&g.source, off)).unwrap();
                // file times must not matter: every other case gives the edited source a
                // modification time far older than the generated file (mv of an older revision, cp -p)
                if (off + ei) % 2 == 1 {
                    if let Ok(f) = std::fs::File::options().write(true).open(&spath) {
                        let _ = f.set_modified(old_time);
                    }
                }
                match load(&wc, &dir) {
                    Ok(Err(_)) => {}
                    Ok(Ok(_)) => rep.violation("source-tamper-accepted", (sn as u64) * 1_000_000 + off as u64, json!({"size": n, "label": g.label, "file": "source", "edit": format!("{}@{}", e.name(), off)}), "source edited but load+check succeeded".into()),
                    Err(p) => rep.violation("panic", 0, json!({"label": g.label, "file": "source"}), p),
                }
            }
        }
        for (name, bytes) in [("truncate_last", g.source[..sn - 1].to_vec()), ("append_nl", [g.source.clone(), b"\n".to_vec()].concat())] {
            rep.eval(1);
            rep.nontrivial(1);
            std::fs::write(&spath, bytes).unwrap();
            if let Ok(Ok(_)) = load(&wc, &dir) {
                rep.violation("source-tamper-accepted", 1, json!({"size": n, "label": g.label, "file": "source", "edit": name}), "source edited but load+check succeeded".into());
            }
        }
        std::fs::write(&spath, &g.source).unwrap();
        // lockfile: every position of the checksum string
        let lock_text = String::from_utf8_lossy(&g.lock).to_string();
        if let Some(start) = lock_text.find("\":\"").map(|i| i + 3) {
            for off in start..start + 64 {
                let mut b = g.lock.clone();
                b[off] = if b[off] == b'0' { b'1' } else { b'0' };
                rep.eval(1);
                rep.nontrivial(1);
                std::fs::write(&wl, &b).unwrap();
                if let Ok(Ok(_)) = load(&wc, &dir) {
                    rep.violation("lock-tamper-accepted", off as u64, json!({"size": n, "label": g.label, "file": "lock", "edit": format!("hexdigit@{}", off)}), "lockfile checksum edited but load+check succeeded".into());
                }
            }
            // the checksum shortened to each of its proper prefixes (including the empty string),
            // with one character deleted at each position, and with one character appended
            let mut variants: Vec<(String, Vec<u8>)> = vec![];
            for keep in 0..64usize {
                let mut b = g.lock[..start + keep].to_vec();
                b.extend_from_slice(&g.lock[start + 64..]);
                variants.push((format!("prefix{}", keep), b));
            }
            for del in 0..64usize {
                let mut b = g.lock.clone();
                b.remove(start + del);
                variants.push((format!("delete@{}", del), b));
            }
            let mut b = g.lock.clone();
            b.insert(start + 64, b'0');
            variants.push(("append0".to_string(), b));
            for (name, b) in variants {
                rep.eval(1);
                rep.nontrivial(1);
                std::fs::write(&wl, &b).unwrap();
                if let Ok(Ok(_)) = load(&wc, &dir) {
                    rep.violation("lock-tamper-accepted", 100, json!({"size": n, "label": g.label, "file": "lock", "edit": name}), format!("lockfile checksum changed ({}) but load+check succeeded", name));
                }
            }
            std::fs::write(&wl, &g.lock).unwrap();
            // and everything is usable again once restored
            rep.eval(1);
            if let Ok(Err(e)) = load(&wc, &dir) {
                if !(e.contains("invalid JSON") && n > 8192) {
                    rep.violation("restored-rejected", 2, json!({"size": n, "label": g.label, "edit": "restored"}), e);
                }
            }
        }
    }
    rep.sample(json!({"label": "s150", "file": "generated", "edit": "insert_space@17", "expect": "load+check fails"}));
    rep.sample(json!({"label": "s70k", "file": "generated", "edit": "xor01@69000", "expect": "load+check fails"}));
    rep.finish(
        "for source configurations whose generated file is ~150 B, ~4 KiB, 8191, 8192, 8193, ~20 KiB and ~70 KiB (generated by the real `config generate`): untouched files must load and pass the integrity check; every offset of the generated file x {xor 0x01, xor 0x20, delete, insert space, insert CR, insert LF}, truncation at every multiple of 64 and at end-1, three appends; every offset of the source x the same edits, every other case with the edited source's modification time set far into the past (quick: stride 7 for sources above 10 KB, 31 above 32 KB; generated files above 32 KB at stride 3 plus every offset within 8 bytes of a multiple of 8192 and the last 64 bytes; thorough: every offset everywhere); every hex digit of the lockfile checksum, every proper prefix of it, every single-character deletion and an appended digit; all must be rejected; non-trivial = edits after which the file still denotes the same JSON value (only the checksum can notice) plus all lockfile/source-append edits",
        true,
        json!({"sizes": sizes.iter().map(|s| s.0).collect::<Vec<_>>(), "edits": 4}),
    )
}

// ------------------------------------------------------------------------------ C18

thread_local! {
    static ESCAPE_STYLE: std::cell::Cell<u8> = const { std::cell::Cell::new(0) };
}

/// JSON string literal in one of several equivalent spellings: 0 = serde_json's, 1 = `/` written
/// as `\/`, 2 = every non-ASCII character as \uXXXX (surrogate pairs), 3 = every character as \uXXXX
fn ser_str(s: &str) -> String {
    let esc = ESCAPE_STYLE.with(|c| c.get());
    if esc == 0 {
        return serde_json::to_string(s).unwrap();
    }
    let mut o = String::from("\"");
    for ch in s.chars() {
        let plain = ch != '"' && ch != '\\' && (ch as u32) >= 0x20;
        let force = match esc {
            1 => ch == '/',
            2 => !ch.is_ascii(),
            _ => true,
        };
        if esc == 1 && ch == '/' {
            o.push_str("\\/");
        } else if force || !plain {
            let mut buf = [0u16; 2];
            for u in ch.encode_utf16(&mut buf) {
                o.push_str(&format!("\\u{:04x}", u));
            }
        } else {
            o.push(ch);
        }
    }
    o.push('"');
    o
}

/// minimal JSON writer with caller-chosen key order and layout
fn ser(v: &Value, top_perm: &[usize], tgt_perm: &[usize], style: u8, depth: usize, out: &mut String) {
    // style: 0 compact, 1 pretty 2 spaces, 2 pretty tabs
    let nl = |out: &mut String, d: usize| {
        if style > 0 {
            out.push('\n');
            for _ in 0..d {
                out.push_str(if style == 1 { "  " } else { "\t" });
            }
        }
    };
    match v {
        Value::Object(m) => {
            let keys: Vec<&String> = m.keys().collect();
            let perm: Vec<usize> = if depth == 0 {
                top_perm.iter().copied().filter(|&i| i < keys.len()).collect()
            } else if depth == 2 && m.contains_key("path") {
                let mut p: Vec<usize> = tgt_perm.iter().copied().filter(|&i| i < keys.len()).collect();
                for i in 0..keys.len() {
                    if !p.contains(&i) {
                        p.push(i);
                    }
                }
                p
            } else {
                (0..keys.len()).collect()
            };
            let perm: Vec<usize> = if perm.len() == keys.len() { perm } else { (0..keys.len()).collect() };
            out.push('{');
            for (k, &i) in perm.iter().enumerate() {
                if k > 0 {
                    out.push(',');
                }
                nl(out, depth + 1);
                out.push_str(&ser_str(keys[i]));
                out.push(':');
                if style > 0 {
                    out.push(' ');
                }
                ser(&m[keys[i]], top_perm, tgt_perm, style, depth + 1, out);
            }
            if !perm.is_empty() {
                nl(out, depth);
            }
            out.push('}');
        }
        Value::Array(a) => {
            out.push('[');
            for (k, x) in a.iter().enumerate() {
                if k > 0 {
                    out.push(',');
                }
                nl(out, depth + 1);
                ser(x, top_perm, tgt_perm, style, depth + 1, out);
            }
            if !a.is_empty() {
                nl(out, depth);
            }
            out.push(']');
        }
        Value::String(st) => out.push_str(&ser_str(st)),
        other => out.push_str(&other.to_string()),
    }
}

fn pad_to(text: &str, total: usize, place: u8) -> Option<String> {
    if text.len() > total {
        return None;
    }
    let pad = " ".repeat(total - text.len());
    let pos = match place {
        0 => 0,
        1 => text.find('{')? + 1,
        2 => {
            // between two targets: after the first "}," inside the targets array if any, else after first '{'
            match text.find("},") {
                Some(i) => i + 2,
                None => text.find('{')? + 1,
            }
        }
        _ => text.len(),
    };
    Some(format!("{}{}{}", &text[..pos], pad, &text[pos..]))
}

pub fn run_c18(tier: &str, root: &Path) -> Value {
    let rep = Report::new();
    let dir = root.join("c18");
    std::fs::create_dir_all(&dir).unwrap();
    let thorough = tier == "thorough";
    let bases: Vec<(&str, Value)> = vec![
        ("small3", {
            let mut v = base_config(3, None);
            v["change_provider"] = json!({"use": "git"});
            // a raw multi-byte character (UTF-8 c3 a9) and an astral one (4 bytes) in a path
            v["targets"][1]["path"] = json!("pkg/caf\u{e9}-\u{1F680}");
            v
        }),
        ("punct3", {
            // strings that look like syntax to anything but a JSON parser: an escaped quote followed by `//`,
            // comment openers, a hash, a backslash, braces and a colon
            let mut v = base_config(3, None);
            v["targets"][1]["path"] = json!("hw/19\"-rack");
            v["targets"][2]["uses"] = json!(["hw/19\"-rack//lib", "a // b", "/* c */ #d", "back\\slash\\\"//x", "{\"k\": [1, 2]} // y"]);
            v
        }),
        ("t40", base_config(40, None)),
        ("t300", base_config(300, None)),
    ];
    let sizes: Vec<usize> = vec![4096, 8191, 8192, 8193, 16_384, 65_535, 65_536, 65_537, 262_144];
    for (bname, base) in &bases {
        let nkeys = base.as_object().unwrap().len();
        let ident: Vec<usize> = (0..nkeys).collect();
        let tident: Vec<usize> = (0..5).collect();
        // list of (description, text)
        let mut sers: Vec<(String, String)> = vec![];
        for style in 0..3u8 {
            let mut s = String::new();
            ser(base, &ident, &tident, style, 0, &mut s);
            sers.push((format!("style{}", style), s.clone()));
            sers.push((format!("style{}+nl", style), format!("{}\n", s)));
            if style > 0 {
                sers.push((format!("style{}+crlf", style), s.replace('\n', "\r\n")));
            }
            for &total in &sizes {
                for place in 0..4u8 {
                    if let Some(p) = pad_to(&s, total, place) {
                        sers.push((format!("style{}+pad{}@{}", style, total, place), p));
                    }
                }
            }
        }
        // the same value with its strings spelled differently (escaped solidus, \u escapes)
        for esc in 1..=3u8 {
            for style in [0u8, 1] {
                ESCAPE_STYLE.with(|c| c.set(esc));
                let mut t = String::new();
                ser(base, &ident, &tident, style, 0, &mut t);
                ESCAPE_STYLE.with(|c| c.set(0));
                sers.push((format!("escape{}+style{}", esc, style), t));
            }
        }
        if *bname == "small3" {
            // place each byte of a multi-byte character on every multiple of 8192 up to 64 KiB, and
            // on either side of it, by padding whitespace in front of the document
            let mut compact = String::new();
            ser(base, &ident, &tident, 0, 0, &mut compact);
            if let Some(pos) = compact.find('\u{e9}') {
                for b in [8192usize, 16384, 24576, 65536] {
                    for shift in 0..9usize {
                        // the first byte of the e-acute lands at b - 6 + shift, so both its bytes and
                        // the four bytes of the following astral character cross the boundary in turn
                        let want = b - 6 + shift;
                        if want > pos {
                            sers.push((format!("multibyte@{}{:+}", b, shift as i64 - 6), format!("{}{}", " ".repeat(want - pos), compact)));
                        }
                    }
                }
            }
            let perms = permutations(nkeys);
            let step = if thorough { 1 } else { 7 };
            for (pi, perm) in perms.iter().enumerate().step_by(step) {
                let mut s = String::new();
                ser(base, perm, &tident, (pi % 3) as u8, 0, &mut s);
                sers.push((format!("topperm{}", pi), s));
            }
            // per-target key orders (uses/ignores/path present => 3 keys max here)
            for (pi, perm) in permutations(3).iter().enumerate() {
                let mut s = String::new();
                ser(base, &ident, perm, 1, 0, &mut s);
                sers.push((format!("tgtperm{}", pi), s));
            }
        }
        // reference value: the compact form
        let reference: std::sync::Mutex<Option<Value>> = std::sync::Mutex::new(None);
        {
            let p = dir.join(format!("{}-ref.json", bname));
            std::fs::write(&p, &sers[0].1).unwrap();
            match load(&p, &dir) {
                Ok(Ok(s)) => *reference.lock().unwrap() = serde_json::from_str(&s).ok(),
                Ok(Err(e)) => rep.violation(if sers[0].1.len() > 8192 { "rejected:larger-than-io-buffer" } else { "rejected" }, 0, json!({"base": bname, "serialisation": sers[0].0, "bytes": sers[0].1.len()}), e),
                Err(p) => rep.violation("panic", 0, json!({"base": bname}), p),
            }
        }
        let refv = reference.lock().unwrap().clone();
        sers.par_iter().enumerate().for_each(|(k, (desc, text))| {
            rep.eval(1);
            if text.len() > 8192 {
                rep.nontrivial(1);
            }
            let p = dir.join(format!("{}-w{}.json", bname, rayon::current_thread_index().unwrap_or(999)));
            std::fs::write(&p, text).unwrap();
            let case = || json!({"base": bname, "serialisation": desc, "bytes": text.len()});
            match load(&p, &dir) {
                Ok(Ok(s)) => {
                    let v: Option<Value> = serde_json::from_str(&s).ok();
                    if refv.is_some() && v != refv {
                        rep.violation("value-differs", k as u64, case(), "same JSON value, different loaded configuration".into());
                    }
                }
                Ok(Err(e)) => rep.violation(
                    if text.len() > 8192 { "rejected:larger-than-io-buffer" } else { "rejected" },
                    text.len() as u64,
                    case(),
                    e,
                ),
                Err(pn) => rep.violation("panic", 0, case(), pn),
            }
        });
        rep.count(&format!("serialisations_{}", bname), sers.len() as u64);
    }
    rep.sample(json!({"base": "small3", "serialisation": "style1+pad8193@2", "bytes": 8193}));
    rep.sample(json!({"base": "t300", "serialisation": "style0", "note": "300 targets compact"}));
    rep.finish(
        "bases {3 targets with uses/ignores/sequences/server, 40 targets, 300 targets} x serialisations {compact, pretty(2 spaces), pretty(tab)} x {as is, trailing newline, CRLF} x string spellings {as is, escaped solidus, \\u escapes for non-ASCII, \\u escapes for every character} x whitespace padding to total sizes {4096, 8191, 8192, 8193, 16384, 65535, 65536, 65537, 262144} at {start, after first brace, between two targets, end}; for the small base (which contains a 2-byte and a 4-byte UTF-8 character) also paddings that put every byte of those characters on every multiple of 8192 up to 64 KiB, every top-level key permutation (quick: every 7th) and every per-target key order; oracle: every serialisation is accepted by Config::new+check and yields the same configuration value as the compact form; non-trivial = serialisations larger than 8192 bytes",
        true,
        json!({"bases": 4, "pad_sizes": sizes}),
    )
}

pub fn run(p: &str, tier: &str, root: &Path) -> Value {
    if p == "c17" {
        run_c17(tier, root)
    } else {
        run_c18(tier, root)
    }
}

pub fn replay(p: &str, case: &Value, root: &Path) -> Vec<(String, String)> {
    // C17/C18 cases are identified by (label/base, edit/serialisation); re-running the sweep and
    // filtering is simplest and still takes seconds.
    let out = run(p, "quick", root);
    let mut d = vec![];
    for v in out["violations"].as_array().cloned().unwrap_or_default() {
        let same = if p == "c17" {
            v["case"]["label"] == case["label"] && v["case"]["edit"] == case["edit"] && v["case"]["file"] == case["file"]
        } else {
            v["case"]["base"] == case["base"] && v["case"]["serialisation"] == case["serialisation"]
        };
        if same {
            d.push((v["sig"].as_str().unwrap_or("").to_string(), v["detail"].as_str().unwrap_or("").to_string()));
        }
    }
    d
}
