//! C03 (valid layering of every acyclic configuration) and C09 (every reachable cycle rejected).
//! One enumeration, two verdicts: a case belongs to C09 when a cycle is reachable from the roots,
//! to C03 when the whole relation is acyclic, and to neither (executed, not judged) when the only
//! cycles are unreachable from the roots.

use crate::*;
use rayon::prelude::*;
use serde_json::{json, Value};
use std::collections::{BTreeMap, BTreeSet};
use std::path::Path;

#[derive(Clone, Copy, PartialEq, Eq, Debug)]
pub enum Prop {
    C03,
    C09,
    Unjudged,
}

pub struct Verdict {
    pub prop: Prop,
    pub defect: Option<(String, String)>,
}

/// `adj` is the oracle relation, `roots` the requested nodes, `want` the set the groups must
/// partition (closure of the roots, or the changed set for pruning).
pub fn judge(
    adj: &[Vec<usize>],
    roots: &[usize],
    want: Option<&BTreeSet<usize>>,
    res: Result<Result<Vec<Vec<usize>>, String>, String>,
) -> Verdict {
    let n = adj.len();
    let reach = closure(adj, roots);
    let all: BTreeSet<usize> = (0..n).collect();
    let cyc_reach = has_cycle(adj, &reach);
    let cyc_any = has_cycle(adj, &all);
    let prop = if cyc_reach {
        Prop::C09
    } else if !cyc_any {
        Prop::C03
    } else {
        Prop::Unjudged
    };
    let defect = match res {
        Err(p) => Some(("panic".to_string(), p)),
        Ok(Ok(groups)) => {
            if cyc_reach {
                Some((
                    "cycle-accepted".to_string(),
                    format!("groups {:?} returned although a cycle is reachable", groups),
                ))
            } else {
                let w = want.cloned().unwrap_or(reach);
                layering_defect(adj, &w, &groups).map(|d| ("bad-layering".to_string(), d))
            }
        }
        Ok(Err(e)) => {
            if cyc_reach {
                if e.contains("Cycle detected") {
                    None
                } else {
                    Some(("wrong-error".to_string(), e))
                }
            } else {
                Some(("acyclic-rejected".to_string(), e))
            }
        }
    };
    Verdict { prop, defect }
}

// ---------------------------------------------------------------------------- graph level

fn graph_adj(n: usize, bits: u32) -> Vec<Vec<usize>> {
    let mut adj = vec![vec![]; n];
    let mut k = 0;
    for i in 0..n {
        for j in 0..n {
            if i != j {
                if bits >> k & 1 == 1 {
                    adj[i].push(j);
                }
                k += 1;
            }
        }
    }
    adj
}

fn roots_of(n: usize, mask: u32, descending: bool) -> Vec<usize> {
    let mut r: Vec<usize> = (0..n).filter(|i| mask >> i & 1 == 1).collect();
    if descending {
        r.reverse();
    }
    r
}

pub fn graph_case(adj: &[Vec<usize>], roots: &[usize]) -> Verdict {
    let n = adj.len();
    let a = adj.to_vec();
    let r = roots.to_vec();
    let res = guarded(move || monorail::verif::dag_groups(n, &a, &r));
    judge(adj, roots, None, res)
}

fn record(rep: &Report, me: Prop, v: Verdict, rank: u64, case: impl FnOnce() -> Value) {
    if v.prop == me {
        rep.eval(1);
    } else if v.prop == Prop::Unjudged {
        rep.count("executed_not_judged", 1);
        return;
    } else {
        return;
    }
    if let Some((sig, detail)) = v.defect {
        rep.violation(&sig, rank, case(), detail);
    }
}

fn graph_sweep(rep: &Report, me: Prop, max_n: usize) {
    for n in 1..=max_n {
        let nbits = n * (n - 1);
        let total = 1u64 << nbits;
        (0..total).into_par_iter().for_each(|bits| {
            let adj = graph_adj(n, bits as u32);
            let edges: usize = adj.iter().map(|a| a.len()).sum();
            let mut nontrivial_counted = false;
            for mask in 1u32..(1 << n) {
                for desc in [false, true] {
                    let roots = roots_of(n, mask, desc);
                    if desc && roots.len() < 2 {
                        continue;
                    }
                    let v = graph_case(&adj, &roots);
                    if v.prop == me && !nontrivial_counted && edges >= 2 {
                        // distinct non-trivial = distinct graphs with >=2 edges judged for this property
                        rep.nontrivial(1);
                        nontrivial_counted = true;
                    }
                    let rank = (n as u64) * 10_000_000 + (edges as u64) * 100_000 + bits % 100_000;
                    record(rep, me, v, rank, || {
                        json!({"kind": "graph", "n": n, "adj": adj, "roots": roots})
                    });
                }
            }
        });
    }
}

// ---------------------------------------------------------------------------- index level

const FLAT: [&str; 4] = ["t1", "t10", "t\u{e9}", "t\u{e9}s"]; // prefix siblings, ASCII and multi-byte

pub fn setup(root: &Path) {
    // flat dirs with a file each, and the nesting universe used by forests
    let mut dirs: Vec<String> = FLAT.iter().map(|s| s.to_string()).collect();
    // forest paths: up to depth 4 chains with sibling names k and k0 ... generated lazily
    for p in forest_path_universe() {
        dirs.push(p);
    }
    let refs: Vec<&str> = dirs.iter().map(|s| s.as_str()).collect();
    make_universe(root, &refs, &[]);
}

/// node i's path given its parent function: roots are r<i>, children <parent>/c<i>;
/// i = 1 gets the name of node 0 with a suffix char so that sibling names share a string prefix.
fn forest_paths(parent: &[Option<usize>]) -> Vec<String> {
    forest_paths_gap(parent, 0)
}

/// `gaps` bit i set: node i sits one non-target directory below its parent (`<parent>/gap/<leaf>`),
/// so the enclosing target is not the immediate parent directory.
fn forest_paths_gap(parent: &[Option<usize>], gaps: u32) -> Vec<String> {
    let n = parent.len();
    let mut paths = vec![String::new(); n];
    for i in 0..n {
        let leaf = |i: usize, pre: &str| -> String {
            // node 0 -> "<pre>1", node 1 -> "<pre>10" (string-prefix sibling), others "<pre><i+1>"
            match i {
                0 => format!("{}1", pre),
                1 => format!("{}10", pre),
                2 => format!("{}\u{e9}", pre),
                _ => format!("{}\u{e9}s", pre),
            }
        };
        paths[i] = match parent[i] {
            None => leaf(i, "r"),
            Some(p) => {
                if gaps >> i & 1 == 1 {
                    format!("{}/gap/{}", paths[p], leaf(i, "c"))
                } else {
                    format!("{}/{}", paths[p], leaf(i, "c"))
                }
            }
        };
    }
    paths
}

fn all_parent_functions(n: usize) -> Vec<Vec<Option<usize>>> {
    let mut out: Vec<Vec<Option<usize>>> = vec![vec![]];
    for i in 0..n {
        let mut next = vec![];
        for pf in &out {
            let mut v = pf.clone();
            v.push(None);
            next.push(v);
            for p in 0..i {
                let mut v = pf.clone();
                v.push(Some(p));
                next.push(v);
            }
        }
        out = next;
    }
    out
}

fn forest_path_universe() -> Vec<String> {
    let mut s = BTreeSet::new();
    for n in 1..=4 {
        for pf in all_parent_functions(n) {
            for gaps in 0..(1u32 << n) {
                for p in forest_paths_gap(&pf, gaps) {
                    s.insert(p);
                }
            }
        }
    }
    s.into_iter().collect()
}

pub fn index_case(cfg: &Cfg, visible: &[usize], root: &Path) -> Verdict {
    let adj = cfg.adj();
    let js = cfg.to_json();
    let vis: Vec<String> = visible.iter().map(|&i| cfg.targets[i].path.clone()).collect();
    let res = guarded(|| monorail::verif::index_groups(&js, &vis, root));
    let res = res.map(|r| r.and_then(|g| labels_to_idx(cfg, g)));
    judge(&adj, visible, None, res)
}

fn labels_to_idx(cfg: &Cfg, g: Vec<Vec<String>>) -> Result<Vec<Vec<usize>>, String> {
    let map: BTreeMap<&str, usize> = cfg
        .targets
        .iter()
        .enumerate()
        .map(|(i, t)| (t.path.as_str(), i))
        .collect();
    g.into_iter()
        .map(|grp| {
            grp.into_iter()
                .map(|l| {
                    map.get(l.as_str())
                        .copied()
                        .ok_or(format!("groups name an unknown target {}", l))
                })
                .collect()
        })
        .collect()
}

/// analyze with a change list: groups must be a valid layering of the run's own `targets`.
pub fn prune_case(cfg: &Cfg, changes: &[String], root: &Path) -> Verdict {
    let adj = cfg.adj();
    let js = cfg.to_json();
    let ch = changes.to_vec();
    let res = guarded(|| monorail::verif::analyze(&js, Some(ch), false, false, true, root));
    let all: Vec<usize> = (0..cfg.targets.len()).collect();
    let mut want = BTreeSet::new();
    let res = res.map(|r| {
        r.and_then(|out| {
            let v: Value = serde_json::from_str(&out).map_err(|e| e.to_string())?;
            let map: BTreeMap<&str, usize> = cfg
                .targets
                .iter()
                .enumerate()
                .map(|(i, t)| (t.path.as_str(), i))
                .collect();
            for t in v["targets"].as_array().ok_or("no targets")? {
                want.insert(*map.get(t.as_str().unwrap()).ok_or("unknown target")?);
            }
            let groups: Vec<Vec<String>> = serde_json::from_value(v["target_groups"].clone())
                .map_err(|e| format!("target_groups: {}", e))?;
            labels_to_idx(cfg, groups)
        })
    });
    // all targets are roots for analyze
    judge(&adj, &all, Some(&want), res)
}

fn flat_cfg(adj: &[Vec<usize>], file_entries: bool) -> Cfg {
    let mut targets: Vec<Tgt> = (0..adj.len()).map(|i| Tgt::new(FLAT[i])).collect();
    for (i, a) in adj.iter().enumerate() {
        for &j in a {
            targets[i].uses.push(if file_entries {
                format!("{}/f", FLAT[j])
            } else {
                FLAT[j].to_string()
            });
        }
    }
    Cfg { targets }
}

fn index_sweep(rep: &Report, me: Prop, root: &Path, max_n: usize, forest_extra: usize, prune: bool) {
    // (a) flat realisation of every labelled digraph
    for n in 1..=max_n {
        let nbits = n * (n - 1);
        (0..(1u64 << nbits)).into_par_iter().for_each(|bits| {
            let adj = graph_adj(n, bits as u32);
            let edges: usize = adj.iter().map(|a| a.len()).sum();
            for file_entries in [false, true] {
                if file_entries && edges == 0 {
                    continue;
                }
                let cfg = flat_cfg(&adj, file_entries);
                let rank = 500_000_000 + (n as u64) * 10_000_000 + (edges as u64) * 100_000 + bits % 100_000;
                let mut counted = false;
                for mask in 1u32..(1 << n) {
                    let roots = roots_of(n, mask, false);
                    let v = index_case(&cfg, &roots, root);
                    if v.prop == me && !counted && edges >= 2 {
                        rep.nontrivial(1);
                        counted = true;
                    }
                    record(rep, me, v, rank, || {
                        json!({"kind": "index", "config": cfg.to_value(), "visible": roots})
                    });
                }
                if prune {
                    // `other` = a changed file that is NOT the one dependants name in their uses entry:
                    // a target then changes without its dependants changing, so the changed set can
                    // have holes in the middle of a dependency chain
                    for (mask, other) in (0u32..(1 << n)).flat_map(|m| [(m, false), (m, true)]) {
                        if other && !file_entries {
                            continue;
                        }
                        let changes: Vec<String> = (0..n)
                            .filter(|i| mask >> i & 1 == 1)
                            .map(|i| format!("{}/{}", FLAT[i], if other { "other.txt" } else { "f" }))
                            .collect();
                        let v = prune_case(&cfg, &changes, root);
                        record(rep, me, v, rank + 50_000, || {
                            json!({"kind": "prune", "config": cfg.to_value(), "changes": changes})
                        });
                    }
                }
            }
        });
    }
    // (b) nesting forests with extra uses edges, every declaration order
    for n in 2..=max_n {
        let pfs = all_parent_functions(n);
        let perms = permutations(n);
        // every forest, and every choice of which nested nodes sit below a non-target gap directory
        let mut shapes: Vec<(Vec<Option<usize>>, u32)> = vec![];
        for pf in &pfs {
            let nested: Vec<usize> = (0..n).filter(|&i| pf[i].is_some()).collect();
            for m in 0..(1u32 << nested.len()) {
                let mut gaps = 0u32;
                for (k, &i) in nested.iter().enumerate() {
                    if m >> k & 1 == 1 {
                        gaps |= 1 << i;
                    }
                }
                shapes.push((pf.clone(), gaps));
            }
        }
        shapes.par_iter().for_each(|(pf, gaps)| {
            let paths = forest_paths_gap(pf, *gaps);
            // extra uses slots: (from, entry) where entry is another node's dir or a file in it
            let mut slots: Vec<(usize, String)> = vec![];
            for i in 0..n {
                for j in 0..n {
                    if i != j {
                        slots.push((i, paths[j].clone()));
                        slots.push((i, format!("{}/f", paths[j])));
                    }
                }
            }
            let mut use_sets: Vec<Vec<usize>> = vec![vec![]];
            if forest_extra >= 1 {
                for i in 0..slots.len() {
                    use_sets.push(vec![i]);
                }
            }
            if forest_extra >= 2 {
                for i in 0..slots.len() {
                    for j in (i + 1)..slots.len() {
                        use_sets.push(vec![i, j]);
                    }
                }
            }
            for us in &use_sets {
                let mut base: Vec<Tgt> = paths.iter().map(|p| Tgt::new(p)).collect();
                for &s in us {
                    base[slots[s].0].uses.push(slots[s].1.clone());
                }
                let mut counted = false;
                for (pi, perm) in perms.iter().enumerate() {
                    let cfg = Cfg {
                        targets: perm.iter().map(|&i| base[i].clone()).collect(),
                    };
                    let rank = 800_000_000 + (n as u64) * 10_000_000 + (us.len() as u64) * 1_000_000 + pi as u64;
                    for mask in 1u32..(1 << n) {
                        let roots = roots_of(n, mask, false);
                        let v = index_case(&cfg, &roots, root);
                        if v.prop == me && !counted {
                            rep.nontrivial(1);
                            counted = true;
                        }
                        record(rep, me, v, rank, || {
                            json!({"kind": "index", "config": cfg.to_value(), "visible": roots})
                        });
                    }
                    if prune && pi % 5 == 0 {
                        for mask in 0u32..(1 << n) {
                            let changes: Vec<String> = (0..n)
                                .filter(|i| mask >> i & 1 == 1)
                                .map(|i| format!("{}/zz", cfg.targets[i].path))
                                .collect();
                            let v = prune_case(&cfg, &changes, root);
                            record(rep, me, v, rank + 500_000, || {
                                json!({"kind": "prune", "config": cfg.to_value(), "changes": changes})
                            });
                        }
                    }
                }
            }
        });
    }
}

/// (c) the configuration family of C10 (path universe with prefix siblings, nesting, entries naming
/// files / dirs / targets / outside paths, entries shared by several targets, declaration orders)
/// judged for layering / cycle rejection under every root subset
fn shared_sweep(rep: &Report, me: Prop, root: &Path, tier: &str) {
    crate::c10::setup(root);
    let b = crate::c10::Bounds { max_t: 3, max_uses: if tier == "thorough" { 2 } else { 1 }, perm_t: 3, ign_t: 0 };
    let mut cases = crate::c10::enumerate(&b);
    if tier != "thorough" {
        // quick: the structurally different names only (the spelling variants are C10's own subject)
        let keep = ["a", "ab", "a/c", "a/cd", "a/c/e", "b", "a-b", "x.txt", "caf\u{e9}"];
        cases.retain(|(_, cfg)| cfg.targets.iter().all(|t| keep.contains(&t.path.as_str())));
    }
    cases.par_iter().for_each(|(rank, cfg)| {
        let n = cfg.targets.len();
        let mut counted = false;
        for mask in 1u32..(1 << n) {
            let roots = roots_of(n, mask, false);
            let v = index_case(cfg, &roots, root);
            if v.prop == me && !counted {
                rep.nontrivial(1);
                counted = true;
            }
            record(rep, me, v, 900_000_000 + rank, || {
                json!({"kind": "index", "config": cfg.to_value(), "visible": roots, "universe": "c10"})
            });
        }
    });
}

pub fn run(me: Prop, tier: &str, root: &Path) -> Value {
    setup(root);
    let rep = Report::new();
    let (gn, inn, fx) = if tier == "thorough" { (5, 4, 2) } else { (4, 4, 1) };
    graph_sweep(&rep, me, gn);
    index_sweep(&rep, me, root, inn, fx, true);
    shared_sweep(&rep, me, root, tier);
    // samples
    let adj = vec![vec![1, 2], vec![2], vec![]];
    rep.sample(json!({"kind": "graph", "n": 3, "adj": adj, "roots": [0], "note": "a uses [b,c]; b uses [c]"}));
    rep.sample(json!({"kind": "index", "config": flat_cfg(&[vec![1], vec![0]], true).to_value(), "visible": [0]}));
    let pf = vec![None, Some(0), Some(1)];
    rep.sample(json!({"kind": "forest_paths", "paths": forest_paths(&pf)}));
    let which = if me == Prop::C03 {
        "judged here: cases whose whole relation is acyclic (result must be a valid layering of the closure of the roots / of the changed set)"
    } else {
        "judged here: cases with a cycle reachable from the roots (result must be the graph-cycle error; never groups, never a panic)"
    };
    rep.finish(
        &format!("graph level: every labelled digraph without self-loops on n<=graph_n nodes x every non-empty root subset (ascending and descending root order) through Dag as Index::new drives it; index level: the same graphs for n<=index_n as flat configurations (uses naming dirs / files) x every root subset x every changed subset (pruning), plus every increasing nesting forest on <=index_n nodes (each nested node directly below its parent or below a non-target gap directory) with <=forest_extra_uses extra uses edges in every declaration order x every root subset, plus the whole configuration family of C10 (<=3 targets, entries shared between targets, every order) x every root subset; {}; evaluations = judged (case, roots) pairs; non-trivial = distinct graphs/configurations with >=2 edges (flat) or any forest configuration", which),
        true,
        json!({"graph_n": gn, "index_n": inn, "forest_extra_uses": fx}),
    )
}

pub fn replay(case: &Value, root: &Path) -> (Prop, Option<(String, String)>) {
    setup(root);
    crate::c10::setup(root);
    let v = match case["kind"].as_str().unwrap_or("") {
        "graph" => {
            let adj: Vec<Vec<usize>> = serde_json::from_value(case["adj"].clone()).unwrap();
            let roots: Vec<usize> = serde_json::from_value(case["roots"].clone()).unwrap();
            graph_case(&adj, &roots)
        }
        "index" => {
            let cfg = Cfg::from_value(&case["config"]);
            let vis: Vec<usize> = serde_json::from_value(case["visible"].clone()).unwrap();
            index_case(&cfg, &vis, root)
        }
        _ => {
            let cfg = Cfg::from_value(&case["config"]);
            let ch: Vec<String> = serde_json::from_value(case["changes"].clone()).unwrap();
            prune_case(&cfg, &ch, root)
        }
    };
    (v.prop, v.defect)
}
