#!/bin/bash
# Runs the repository's stable baseline with the verification guard OFF (no RUSTFLAGS in the
# environment, so /repo/.cargo/config.toml applies) and checks that every stable_pass test passes.
set -u
cd /repo || exit 2
unset RUSTFLAGS CARGO_ENCODED_RUSTFLAGS CARGO_TARGET_DIR
export CARGO_NET_OFFLINE=true
OUT=$(mktemp)
trap 'rm -f "$OUT"' EXIT
cargo test --workspace --no-fail-fast --offline -- --test-threads 8 >"$OUT" 2>&1
python3 - "$OUT" <<'PY'
import json,re,sys
out=open(sys.argv[1]).read()
base=json.load(open('/root/.vp/BASELINE.json'))
ok=set(re.findall(r'^test (\S+) \.\.\. ok$',out,re.M))
missing=[t for t in base['stable_pass'] if t.split('::',1)[1] not in ok]
print("stable=%d passed_now=%d missing=%d"%(len(base['stable_pass']),len(ok),len(missing)))
for m in missing: print("NOT PASSING:",m)
sys.exit(1 if missing else 0)
PY
