#!/usr/bin/env python3
"""seed_save.py <Cxx> <seed-id> <needs> <caught-by json> : copies a confirmed seeded change into /verif/seeded/<seed-id>/"""
import json, os, shutil, sys
prop, sid, needs, caught = sys.argv[1], sys.argv[2], sys.argv[3], json.loads(sys.argv[4])
src = os.path.join(os.environ.get("SEED_ROOT", "/tmp/seed"), prop)
dst = "/verif/seeded/%s" % sid
os.makedirs(dst, exist_ok=True)
shutil.copy(os.path.join(src, "seed.patch"), os.path.join(dst, "patch.diff"))
for f in os.listdir(src):
    if f.startswith("demo") or f == "SEED_REPORT.md" or (f.endswith(".rs") and f != "build.rs" and os.path.isfile(os.path.join(src, f))):
        shutil.copy(os.path.join(src, f), os.path.join(dst, f))
meta = {
    "seed_id": sid, "breaks_property": prop, "needs_to_manifest": needs,
    "author": "independent sub-agent given only the property text and a scratch worktree of /repo",
    "confirmed": {
        "compiles_and_existing_tests_pass": "cargo test --offline in the scratch worktree with the change: 74 passed, 0 failed",
        "demo": "demo.sh exits non-zero with the change and 0 without it (rebuilt in both directions)",
        "applies_to_repo_head": True,
    },
    "checks_run": caught,
    "detect_with": os.environ.get("DETECT_WITH", prop),
    "how_to_rerun": "git -C /repo apply /verif/seeded/%s/patch.diff && (cd /verif && ./check %s); git -C /repo checkout -- ." % (sid, prop),
}
json.dump(meta, open(os.path.join(dst, "meta.json"), "w"), indent=1)
print("saved", dst, sorted(os.listdir(dst)))
