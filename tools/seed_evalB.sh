#!/bin/bash
# usage: seed_evalB.sh <Cxx> [check ids...] - phase B of seed evaluation: applies $SEED_ROOT/<Cxx>/seed.patch to
# /repo, runs the named checks (default: the property's own), undoes the patch. Phase A (tests and demo
# inside the worktree) is tools/seed_eval.sh's first half.
set -u
P=$1; shift
CHECKS=${@:-$P}
WT=${SEED_ROOT:-/tmp/seed}/$P
cd /repo && git apply $WT/seed.patch || { echo "PATCH DOES NOT APPLY"; exit 3; }
cd /verif
for c in $CHECKS; do
  s=$(date +%s); out=$(./check $c 2>&1); code=$?; e=$(date +%s)
  echo "check $c exit=$code ($((e-s))s): $(echo "$out" | grep -E 'VIOLATION|ENGINE' | head -3 | cut -c1-300)"
  echo "$out" | grep -E '^\s+\[' | head -3 | cut -c1-400
done
git -C /repo checkout -- .
git -C /repo status --short | head -3
