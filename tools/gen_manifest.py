#!/usr/bin/env python3
"""Generates /verif/MANIFEST.json from the table below and validates it against the schema."""
import json
import os
import subprocess
import sys

VERIF = os.path.dirname(os.path.dirname(os.path.abspath(__file__)))

# property -> (built, engine, category, technique, text, note, design_ref)
P = {
 "C01": (True, "vx", "exploration",
         "bounded exhaustive input enumeration of the real Index::new+analyze against a reference model",
         "Every configuration over a collision-forcing path universe (prefix siblings, 3-deep nesting, uses/ignores naming files, dirs, targets, outside paths) up to the stated sizes x every change of the change universe, alone and in lists (orders, duplicates, every batch-boundary position), executed on the real code and compared with the recursive definition in the statement; exhaustive within the bounds.",
         "Trusts the reference oracle (60 lines, three-valued on the documented-silent case) and that paths outside the universe behave like those inside it.", "4/C01"),
 "C03": (True, "vx", "exploration",
         "bounded exhaustive enumeration of labelled digraphs x root subsets on the real Dag/Index",
         "All labelled digraphs on <=4 (thorough: 5) nodes x all root subsets through Dag exactly as Index::new drives it, plus the same graphs as flat and nested configurations through Index::new and analyze pruning; result must be a valid layering of the requested set. Labelled enumeration is enumeration over declaration orders.",
         "Any valid layering accepted. Graphs beyond 5 nodes are not explored.", "4/C03"),
 "C09": (True, "vx", "exploration",
         "bounded exhaustive enumeration of labelled digraphs x root subsets on the real Dag/Index",
         "The complement of C03 in the same enumeration: every (graph, roots) with a cycle reachable from the roots must yield the graph-cycle error - never groups, never a panic, at graph level, Index level (uses-only and uses+nesting cycles) and in analyze.",
         "Cycles unreachable from the roots are executed but not judged.", "4/C09"),
 "C10": (True, "vx", "exploration",
         "bounded exhaustive enumeration of configurations on the real Index::new against the dep relation",
         "Every target subset of an 8-directory universe (prefix siblings, 4-deep nesting) x every placement of uses entries from a 19-entry universe x declaration orders: the edge set built by Index::new must equal the declared relation exactly.",
         "Edges are read back through render_dotfile (the production renderer).", "4/C10"),
 "C08": (True, "vx", "model_checking",
         "exhaustive enumeration of write/pause scripts on the real reader+compressor under a paused clock with fixed select! seeds",
         "Every script of (pause class relative to the flush tick, chunk) steps up to length 3 (thorough: 4) on one stream, for every listed select! seed, plus deviation-bounded multi-stream groups, executed on the real process_reader and Compressor threads in virtual time; every stored file must decode to exactly the bytes written to that stream. States = distinct stored outcomes, transitions = executions.",
         "select! start order is covered by enumerated seeds, not proven complete; compressor OS threads run free (FIFO per stream). The end-to-end slice through `monorail run` binds the wrapper to process_plan.", "4/C08"),
 "C17": (True, "vx", "exploration",
         "exhaustive single-edit enumeration (every offset x 4 edits, truncations, appends) on real generated files",
         "For generated files of 7 sizes around and beyond the I/O buffer size, produced by the real `config generate`: untouched must load; every single-byte edit at every offset, truncations and appends of the generated file, every offset of the source, every hex digit of the lockfile checksum must be rejected by Config::new+check.",
         "Single edits only; Config::new+check called as cli::handle does.", "4/C17"),
 "C18": (True, "vx", "exploration",
         "bounded exhaustive enumeration of serialisations (layout, key order, padding to sizes around buffer boundaries)",
         "Three base configurations x compact/pretty/tab x newline variants x whitespace padding to 9 sizes at 4 positions x key permutations: every serialisation must be accepted and load to the same configuration value.",
         "Values outside the three bases are not explored.", "4/C18"),
 "C04": (True, "px", "model_checking",
         "stateless depth-first search over child-completion schedules of real `monorail run` processes with controlled children",
         "Every child blocks in a controlled helper until the checker releases it; for 12 dependency shapes x selection modes x command lists the explorer enumerates every release order (deviation-bounded for multi-command runs) plus eager releases, each a complete real run; at every arrival all dependencies in the run and all executables of earlier commands must have exited. Reports states (released-set x enabled-set), transitions (releases), executions.",
         "tokio worker interleavings between releases are free-running; driver expectations are used for pacing only.", "4/C04"),
 "C05": (True, "px", "model_checking",
         "bounded exhaustive enumeration of selections x plans on the real CLI with traced children",
         "Shapes x command-definition patterns x command lists x selection modes (all / every changed subset after a checkpoint / -t S / -t S --deps): the result document must contain exactly commands x selected targets once each, groups must equal `analyze --target-groups` taken immediately before, and traced executable starts must match (at most once; exactly once iff defined and nothing failed earlier; never if undefined).",
         "Repository-state dimension (every history) is covered by the repository BFS of C02/C07/C19, not here.", "4/C05"),
 "C06": (True, "px", "model_checking",
         "schedule search over failure positions x completion orders, plus ordering-constraint enumeration at guarded points",
         "Part A: every single fault (exit codes, missing x bit, undefined with/without the flag) at every position and pairs of faults, under every release order of the affected groups; part B: all-success runs under every feasible ordering constraint between compressor-thread exit and shutdown sends (held at cfg-guarded points). Oracle: failed flag, exit status, later groups/commands neither started nor reported other than skipped, status truthfulness.",
         "Cancelled siblings in the failing group are left open, as the statement does.", "4/C06"),
 "C16": (True, "px", "exploration",
         "rendezvous schedule imposed on real runs for every group size x plan position",
         "For group sizes 2..48 (quick: 9 sizes) x 4 positions x 1-2 commands the controller releases nobody until the whole group has arrived - exactly the adversarial schedule of the statement; every member must arrive and the run must then finish with all-success.",
         "Run failures unrelated to concurrency are attributed to C06 and counted as blocked.", "4/C16"),
 "C02": (True, "px", "model_checking",
         "explicit-state breadth-first search over repository x checkpoint histories, every state materialised with real git and the real binary",
         "BFS over create/edit/delete/mv/git mv/add/commit/checkpoint operations with state hashing (commit ids canonicalised); every distinct state is replayed in a real scratch repository, checked for conformance with the model, and `analyze --changes` for the default range and every ordered commit pair is compared with the statement's set.",
         "Linear histories of <=3 commits over three paths (one with a space and a non-ASCII character); states are merged by the model key, which the conformance check ties to the real repository.", "4/C02"),
 "C07": (True, "px", "model_checking",
         "explicit-state BFS over repository histories plus per-state edit/update trials on the real repository",
         "Same BFS; in every state reached by `checkpoint update -p` analyze must report nothing and run must start nothing; from there every later single edit (fresh content, file creation with old or new content, deletion of a committed file; thorough: pairs) must re-flag exactly the affected targets and a second update must clear them.",
         "As C02.", "4/C07"),
 "C19": (True, "px", "model_checking",
         "explicit-state BFS over update/show/delete/out-delete sequences interleaved with commits and edits",
         "Same BFS; in every state `checkpoint show` must equal what the last successful update printed (or fail), updates record HEAD or the given id, and without a checkpoint analyze and run cover every target.",
         "As C02.", "4/C19"),
 "C11": (True, "px", "exploration",
         "bounded exhaustive enumeration of argmap/definition/argument combinations on real runs with traced children",
         "Presence lattice of base/named/missing argmap files x --argmaps orders x --no-base-argmaps x --args x custom argmap and command directories x explicit/empty definitions x argument strings with spaces, quotes, newlines, empty strings: argv, cwd and argv[0] recorded by the started executable itself must equal the documented concatenation, the target directory and the resolved file.",
         "Dimensions are combined in four covering families rather than one full product (stated in the rule).", "4/C11"),
 "C12": (True, "px", "model_checking",
         "explicit-state BFS to fixpoint over run histories, state = actual disk content of the output directory",
         "For max_retained_runs in {1,2} (thorough {1,2,3}) the reachable set of output-directory states under an alphabet of three distinguishable completing runs is explored until no new state appears; after every transition result show, log show, log show --id and the directory count are checked.",
         "Only completing runs are in the alphabet (observation O1).", "4/C12"),
 "C13": (True, "px", "fault_enumeration",
         "crash-point enumeration: abort at every guarded point and SIGKILL at every child state of a victim run, after prefix histories",
         "A victim run is terminated at each of 11 guarded points around slot set-up, execution, result file and run pointer (including between truncation and write) and at 4 logical child states, after 0/1/max/max+1 completed runs; afterwards result show, log show, the checkpoint and the next run must be as if the victim never happened.",
         "Process death only; no power-loss semantics.", "4/C13"),
 "C14": (True, "px", "model_checking",
         "explicit-state search of the lock-contender machine executed on real processes held at guarded points",
         "Every ordered pair (thorough: triples) of the four locking APIs, every maximal sequence of attempt / finish holder / SIGKILL holder, executed from scratch: never two past acquisition; losers exit with a lock error, start nothing and leave the output directory byte-identical; a free lock is acquired at once.",
         "The window between lock.pre and bind is not subdivided.", "4/C14"),
 "C15": (True, "px", "fault_enumeration",
         "listener-fault enumeration over logical positions of a controlled run",
         "Listener absent or attached with filter variants, killed (SIGKILL/SIGTERM) before the run, after connect, mid-output, between groups, after the last burst; statuses, exit status and decoded stored logs must equal the listener-absent baseline of the same burst pattern.",
         "Kill instants are logical states of the controlled children, not arbitrary times.", "4/C15"),
 "C20": (True, "px", "model_checking",
         "exhaustive filter enumeration plus held-point interleavings of concurrent flushes on the shared connection",
         "All 48 listener filter combinations over 2 targets x 2 commands x 2 streams with real `log tail`, plus schedules in which the first flushing task is held inside the critical section while others contend; the listener output must parse into header-introduced blocks, only for admitted keys, reassembling to the stored logs.",
         "TCP timing is free-running.", "4/C20"),
}

TODO_REASON = "check not built yet in this round (design in DESIGN.md section 4); will be claimed once its explorer exists"


def main():
    checks = []
    na = []
    props = [json.loads(l)["id"] for l in open(os.path.join(VERIF, "properties.jsonl"))]
    for pid in props:
        if pid in P and P[pid][0]:
            built, engine, cat, tech, text, note, ref = P[pid]
            checks.append({
                "property_id": pid,
                "quick_cmd": "./check %s --tier quick" % pid,
                "thorough_cmd": "./check %s --tier thorough" % pid,
                "evidence_file": "/verif/evidence/%s.json" % pid,
                "replay_cmd_template": "./check %s --replay {path}" % pid,
                "engine": engine,
                "level_claimed": {"category": cat, "text": text, "design_ref": "DESIGN.md section " + ref},
                "level_note": note,
                "technique": tech,
            })
        else:
            na.append({"property_id": pid, "reason": TODO_REASON})
    hooks_commits = subprocess.run(
        ["git", "-C", "/repo", "log", "--format=%h", "--grep", "^verif hooks"],
        capture_output=True, text=True).stdout.split()
    m = {
        "version": 1,
        "setup_cmd": "./setup.sh",
        "hooks": {
            "guard": "--cfg pnordahl_monorail_verif",
            "enable": "RUSTFLAGS='--cfg tokio_unstable --cfg pnordahl_monorail_verif' cargo build (done by ./setup.sh and by every check; the harness crate path-depends on /repo with the same flags)",
            "baseline_off_cmd": "/verif/baseline_off.sh",
            "source_commits": hooks_commits,
            "add_only": True,
        },
        "engines": [
            {"name": "vx", "path": "harness/src/bin/vx.rs", "serves_properties": ["C01", "C03", "C08", "C09", "C10", "C17", "C18"],
             "kind_free_text": "in-process bounded exhaustive explorers calling the real code through cfg-guarded wrappers"},
            {"name": "px", "path": "px/", "serves_properties": ["C02", "C04", "C05", "C06", "C07", "C11", "C12", "C13", "C14", "C15", "C16", "C19", "C20"],
             "kind_free_text": "process-level explorers: explicit-state BFS over repository histories, stateless schedule search with controlled children, guarded-point crash/ordering enumeration"},
        ],
        "checks": checks,
        "not_applicable": na,
        "notes": "Exit 2 from a check means machinery failure (build error, divergence), never a verdict. known_findings.jsonl lists fixed and open findings; fixed entries suppress nothing.",
    }
    out = os.path.join(VERIF, "MANIFEST.json")
    with open(out, "w") as f:
        json.dump(m, f, indent=1)
        f.write("\n")
    try:
        import jsonschema
        jsonschema.validate(m, json.load(open("/root/.vp/MANIFEST.schema.json")))
        print("MANIFEST.json valid: %d checks, %d not_applicable" % (len(checks), len(na)))
    except ImportError:
        print("jsonschema not importable here; run with python3-vt to validate")


if __name__ == "__main__":
    main()
