#!/bin/bash
# usage: seed_eval.sh <Cxx> [seed-name] [check ids...]  - confirms a seeded change from /tmp/seed/<Cxx>
# (tests pass with it, demo fails with / passes without), then runs the checks against /repo with
# the patch applied and undoes it.
set -u
P=$1; NAME=${2:-$P-a}; shift; shift || true
CHECKS=${@:-$P}
WT=${SEED_ROOT:-/tmp/seed}/$P
cd $WT || exit 2
git diff -- src > seed.patch
echo "== patch: $(wc -l < seed.patch) lines, files: $(git diff --stat -- src | tail -1)"
echo "== existing tests with the change"
cargo test --offline 2>&1 | grep -E "^test result|FAILED|failed" | head -5
cargo build --offline -q 2>/dev/null
echo "== demo WITH change"; bash ./demo.sh >$WT.demo_with.log 2>&1; echo "exit=$?"
git apply -R seed.patch; cargo build --offline -q 2>/dev/null
echo "== demo WITHOUT change"; bash ./demo.sh >$WT.demo_without.log 2>&1; echo "exit=$?"
git apply seed.patch; cargo build --offline -q 2>/dev/null
echo "== checks against /repo with the patch"
cd /repo && git apply $WT/seed.patch || { echo "PATCH DOES NOT APPLY"; exit 3; }
cd /verif
for c in $CHECKS; do
  s=$(date +%s); out=$(./check $c 2>&1); code=$?; e=$(date +%s)
  echo "check $c exit=$code ($((e-s))s): $(echo "$out" | grep -E 'VIOLATION|ENGINE' | head -3 | cut -c1-300)"
  echo "$out" | grep -E '^\s+\[' | head -3 | cut -c1-400
done
git -C /repo checkout -- .
git -C /repo status --short | head -3
