#!/bin/bash
# usage: run_some.sh <tier> Cxx...  - like run_all.sh for the named checks only
tier=$1; shift
cd "$(dirname "$0")/.."
for p in "$@"; do
  s=$(date +%s.%N)
  out=$(./check $p --tier $tier 2>&1); code=$?
  e=$(date +%s.%N)
  printf "%s exit=%d %.1fs %s\n" $p $code $(echo "$e - $s" | bc) "$(echo "$out" | grep -E 'VIOLATION|ENGINE|KNOWN' | head -2 | tr '\n' ' ' | cut -c1-200)"
done
