#!/bin/bash
# Applies every seeded change under /verif/seeded to /repo in turn, runs the quick check of the
# property it breaks and reports whether it is detected; /repo is restored after each.
cd /verif || exit 2
git -C /repo diff --quiet || { echo "/repo has uncommitted changes; aborting"; exit 2; }
pass=0; fail=0
# SEED_GLOB (optional): only the seeds whose directory name matches, e.g. SEED_GLOB='*-[kl]'
for d in seeded/${SEED_GLOB:-*}/; do
  id=$(basename $d)
  prop=$(python3 -c "import json;m=json.load(open('$d/meta.json'));print(m.get('detect_with') or m['breaks_property'])")
  if ! git -C /repo apply --check /verif/$d/patch.diff 2>/dev/null; then echo "$id: PATCH DOES NOT APPLY"; fail=$((fail+1)); continue; fi
  git -C /repo apply /verif/$d/patch.diff
  s=$(date +%s); out=$(./check $prop --tier quick 2>&1); code=$?; e=$(date +%s)
  git -C /repo checkout -- .
  sigs=$(echo "$out" | grep -oE '^\s+\[[^]]+\]' | tr -d ' ' | sort -u | head -4 | tr '\n' ' ')
  if [ $code -eq 1 ]; then echo "$id ($prop): DETECTED in $((e-s))s $sigs"; pass=$((pass+1)); else echo "$id ($prop): NOT DETECTED (exit $code) $(echo "$out" | grep ENGINE | head -1 | cut -c1-200)"; fail=$((fail+1)); fi
done
echo "detected=$pass not_detected=$fail"
./setup.sh >/dev/null
