#!/bin/bash
# runs every quick (or $1) check sequentially and prints exit code and wall time
tier=${1:-quick}
cd "$(dirname "$0")/.."
for p in C01 C02 C03 C04 C05 C06 C07 C08 C09 C10 C11 C12 C13 C14 C15 C16 C17 C18 C19 C20; do
  s=$(date +%s.%N)
  out=$(./check $p --tier $tier 2>&1); code=$?
  e=$(date +%s.%N)
  printf "%s exit=%d %.1fs %s\n" $p $code $(echo "$e - $s" | bc) "$(echo "$out" | grep -E 'VIOLATION|ENGINE|KNOWN' | head -2 | tr '\n' ' ' | cut -c1-200)"
done
