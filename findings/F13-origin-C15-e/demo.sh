#!/usr/bin/env bash
# Demonstration for C15 (log streaming never affects the outcome of a run).
#
# Two independent targets `a` and `b` run `build` in the same parallel group.
#   b: after 0.3 s prints two lines on stdout and two on stderr, then stays alive for a while
#   a: exits 1 after 2 s, which cancels the rest of the group (b among it)
# The same run is done twice in identical repositories: once with no `log tail` listener and once
# with `monorail log tail --stdout --stderr` attached.  Statuses, exit code and stored logs
# (as printed by `log show`) must be identical.
#
# exit 0 = identical (property holds), exit 1 = they differ (property violated)
set -u
HERE="$(cd "$(dirname "$0")" && pwd)"
BIN="${MONORAIL_BIN:-$HERE/target/debug/monorail}"
if [ ! -x "$BIN" ]; then
    (cd "$HERE" && cargo build --offline) || exit 2
fi

TMP="$(mktemp -d)"
TAIL_PID=""
cleanup() {
    if [ -n "$TAIL_PID" ]; then kill "$TAIL_PID" 2>/dev/null; wait "$TAIL_PID" 2>/dev/null; fi
    rm -rf "$TMP"
}
trap cleanup EXIT

free_port() {
    local p
    while :; do
        p=$((33000 + (RANDOM * 32768 + RANDOM) % 6000))
        if ! (exec 3<>"/dev/tcp/127.0.0.1/$p") 2>/dev/null; then
            echo "$p"
            return
        fi
    done
}

make_repo() {
    local repo="$1" lock_port="$2" log_port="$3"
    mkdir -p "$repo/a/monorail/cmd" "$repo/b/monorail/cmd"
    cat >"$repo/Monorail.json" <<EOF
{"targets":[{"path":"a"},{"path":"b"}],"server":{"lock":{"port":$lock_port},"log":{"port":$log_port}}}
EOF
    echo a >"$repo/a/file.txt"
    echo b >"$repo/b/file.txt"
    cat >"$repo/a/monorail/cmd/build.sh" <<'EOF'
#!/usr/bin/env bash
sleep 2
exit 1
EOF
    cat >"$repo/b/monorail/cmd/build.sh" <<'EOF'
#!/usr/bin/env bash
sleep 0.3
echo "b: stdout line 1"
echo "b: stderr line 1" >&2
echo "b: stdout line 2"
echo "b: stderr line 2" >&2
sleep 3
EOF
    chmod +x "$repo/a/monorail/cmd/build.sh" "$repo/b/monorail/cmd/build.sh"
    (
        cd "$repo" &&
            git init -q . &&
            git config user.email demo@example.com &&
            git config user.name demo &&
            git add -A &&
            git commit -q -m init
    ) || exit 2
}

# strip the fields that legitimately vary between two runs
normalise_result() {
    python3 -c '
import json, sys
o = json.load(sys.stdin)
res = []
for c in o["results"]:
    groups = []
    for g in c["target_groups"]:
        groups.append({t: {k: v for k, v in r.items() if k != "runtime_secs"} for t, r in sorted(g.items())})
    res.append({"command": c["command"], "target_groups": groups})
print(json.dumps({"failed": o["failed"], "results": res}, sort_keys=True))
'
}

run_arm() {
    local name="$1" with_listener="$2"
    local repo="$TMP/$name/repo"
    local lock_port log_port
    lock_port="$(free_port)"
    log_port="$(free_port)"
    while [ "$log_port" = "$lock_port" ]; do log_port="$(free_port)"; done
    make_repo "$repo" "$lock_port" "$log_port"
    cd "$repo" || exit 2
    TAIL_PID=""
    if [ "$with_listener" = yes ]; then
        "$BIN" log tail --stdout --stderr >"$TMP/$name/tail.out" 2>"$TMP/$name/tail.err" &
        TAIL_PID=$!
        sleep 1
        if ! kill -0 "$TAIL_PID" 2>/dev/null; then
            echo "listener did not start:"
            cat "$TMP/$name/tail.err"
            exit 2
        fi
    fi
    "$BIN" run -c build >"$TMP/$name/run.out" 2>"$TMP/$name/run.err"
    echo $? >"$TMP/$name/exit_code"
    normalise_result <"$TMP/$name/run.out" >"$TMP/$name/statuses"
    for t in a b; do
        "$BIN" log show --stdout -t "$t" >"$TMP/$name/log.$t.stdout" 2>&1
        "$BIN" log show --stderr -t "$t" >"$TMP/$name/log.$t.stderr" 2>&1
    done
    if [ -n "$TAIL_PID" ]; then
        kill "$TAIL_PID" 2>/dev/null
        wait "$TAIL_PID" 2>/dev/null
        TAIL_PID=""
    fi
    cd "$TMP" || exit 2
}

run_arm absent no
run_arm attached yes

rc=0
for f in exit_code statuses log.a.stdout log.a.stderr log.b.stdout log.b.stderr; do
    if cmp -s "$TMP/absent/$f" "$TMP/attached/$f"; then
        echo "same      $f"
    else
        echo "DIFFERENT $f"
        echo "--- no listener"
        sed 's/^/    /' "$TMP/absent/$f"
        echo "--- listener attached"
        sed 's/^/    /' "$TMP/attached/$f"
        rc=1
    fi
done
echo "exit code: no listener=$(cat "$TMP/absent/exit_code") attached=$(cat "$TMP/attached/exit_code")"
echo "statuses:  $(cat "$TMP/attached/statuses")"
if [ $rc -eq 0 ]; then
    echo "PASS: the outcome of the run does not depend on the log tail listener"
else
    echo "FAIL: the outcome of the run depends on whether a log tail listener is attached"
fi
exit $rc
