#!/bin/bash
# Builds the hooks-on monorail binary and the harness from files on disk only (offline).
cd "$(dirname "$0")" || exit 2
exec python3 -c "
import sys
sys.path.insert(0,'px')
import common
try:
    print('built in %.1fs' % common.ensure_built())
except common.EngineError as e:
    print('setup failed:', e); sys.exit(2)
"
